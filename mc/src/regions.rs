//! Region-refinement explorer: decides `for all x in R^n` between two
//! piece-wise affine evaluators by enumerating the relatively open faces of the
//! hyperplane arrangement induced by the guards both sides branch on
//! (DESIGN 3.3, Appendix A1-A3).

use crate::lp::{strict_feasible, Rel, Row};
use crate::q::{dot, Q};

/// affine form a.x + c
#[derive(Clone, Debug, PartialEq, Eq, Hash)]
pub struct Form {
    pub a: Vec<Q>,
    pub c: Q,
}

impl Form {
    pub fn new(a: Vec<Q>, c: Q) -> Form {
        Form { a, c }
    }
    pub fn eval(&self, x: &[Q]) -> Q {
        &dot(&self.a, x) + &self.c
    }
    pub fn is_const(&self) -> bool {
        self.a.iter().all(|v| v.is_zero())
    }
    /// positive rescaling so that the first non-zero coefficient is +-1
    pub fn normalized(&self) -> Form {
        for v in &self.a {
            if !v.is_zero() {
                let s = v.abs();
                if s == Q::ONE {
                    return self.clone();
                }
                return Form {
                    a: self.a.iter().map(|x| x / &s).collect(),
                    c: &self.c / &s,
                };
            }
        }
        Form { a: self.a.clone(), c: Q::int(self.c.sign() as i64) }
    }
    pub fn neg(&self) -> Form {
        Form { a: self.a.iter().map(|x| -x).collect(), c: -self.c.clone() }
    }
    pub fn sub(&self, o: &Form) -> Form {
        Form {
            a: self.a.iter().zip(o.a.iter()).map(|(x, y)| x - y).collect(),
            c: &self.c - &o.c,
        }
    }
    pub fn to_json(&self) -> serde_json::Value {
        serde_json::json!({"a": crate::q::fmt_vec(&self.a), "c": self.c.to_string()})
    }
}

/// affine map x -> m x + c
#[derive(Clone, Debug, PartialEq, Eq)]
pub struct AffMap {
    pub m: Vec<Vec<Q>>,
    pub c: Vec<Q>,
}

impl AffMap {
    pub fn identity(n: usize) -> AffMap {
        let mut m = vec![vec![Q::ZERO; n]; n];
        for i in 0..n {
            m[i][i] = Q::ONE;
        }
        AffMap { m, c: vec![Q::ZERO; n] }
    }
    pub fn outdim(&self) -> usize {
        self.m.len()
    }
    pub fn indim(&self) -> usize {
        self.m.first().map(|r| r.len()).unwrap_or(0)
    }
    pub fn row(&self, i: usize) -> Form {
        Form { a: self.m[i].clone(), c: self.c[i].clone() }
    }
    pub fn apply(&self, x: &[Q]) -> Vec<Q> {
        (0..self.m.len()).map(|i| &dot(&self.m[i], x) + &self.c[i]).collect()
    }
    /// self after inner: x -> self(inner(x)); `n_in` = input dim of inner (needed for 0-row maps)
    pub fn after(&self, inner: &AffMap, n_in: usize) -> AffMap {
        let k = inner.outdim();
        let mut m = Vec::with_capacity(self.m.len());
        let mut c = Vec::with_capacity(self.m.len());
        for i in 0..self.m.len() {
            assert_eq!(self.m[i].len(), k, "AffMap::after dimension mismatch");
            let mut row = vec![Q::ZERO; n_in];
            let mut ci = self.c[i].clone();
            for j in 0..k {
                let f = &self.m[i][j];
                if f.is_zero() {
                    continue;
                }
                for l in 0..n_in {
                    if !inner.m[j][l].is_zero() {
                        row[l] = &row[l] + &(f * &inner.m[j][l]);
                    }
                }
                ci = &ci + &(f * &inner.c[j]);
            }
            m.push(row);
            c.push(ci);
        }
        AffMap { m, c }
    }
    /// form (a.y + c0) with y = self(x), as a form in x
    pub fn pull_form(&self, a: &[Q], c0: &Q, n_in: usize) -> Form {
        let mut row = vec![Q::ZERO; n_in];
        let mut c = c0.clone();
        for j in 0..a.len() {
            if a[j].is_zero() {
                continue;
            }
            for l in 0..n_in {
                if !self.m[j][l].is_zero() {
                    row[l] = &row[l] + &(&a[j] * &self.m[j][l]);
                }
            }
            c = &c + &(&a[j] * &self.c[j]);
        }
        Form { a: row, c }
    }
    pub fn to_json(&self) -> serde_json::Value {
        serde_json::json!({
            "mat": self.m.iter().map(|r| crate::q::fmt_vec(r)).collect::<Vec<_>>(),
            "bias": crate::q::fmt_vec(&self.c)
        })
    }
}

/// One side of a comparison.  `eval` must branch only on the *signs*
/// (<0, =0, >0) of forms it pushes to `guards` (Appendix A2).
pub trait Side {
    fn eval(&self, x: &[Q], guards: &mut Vec<Form>) -> Result<Option<AffMap>, String>;
}

#[derive(Clone, Debug)]
pub struct Face {
    /// splitting constraints (normalised form, sign)
    pub cons: Vec<(Form, i8)>,
    /// forms known to have constant sign on this face (superset of cons)
    pub known: Vec<(Form, i8)>,
    /// a point of the relative interior
    pub w: Vec<Q>,
}

impl Face {
    pub fn whole(n: usize) -> Face {
        Face { cons: vec![], known: vec![], w: vec![Q::ZERO; n] }
    }
    pub fn n_eq(&self) -> usize {
        self.cons.iter().filter(|(_, s)| *s == 0).count()
    }
    fn known_sign(&self, f: &Form) -> Option<i8> {
        self.known.iter().find(|(g, _)| g == f).map(|(_, s)| *s)
    }
    /// LP rows: (closed/eq rows, strict rows) describing this face, plus one extra strict
    fn lp_rows(&self) -> (Vec<Row>, Vec<(Vec<Q>, Q)>) {
        let mut le = vec![];
        let mut st = vec![];
        for (f, s) in &self.cons {
            match *s {
                0 => le.push(Row { a: f.a.clone(), b: -f.c.clone(), rel: Rel::Eq }),
                1 => st.push((f.neg().a, f.c.clone())), // -a.x < c
                _ => st.push((f.a.clone(), -f.c.clone())), // a.x < -c
            }
        }
        (le, st)
    }
    /// exists x in face with sign * f(x) > 0 ?
    pub fn find_with_sign(&self, f: &Form, sign: i8) -> Option<Vec<Q>> {
        let (le, mut st) = self.lp_rows();
        if sign > 0 {
            st.push((f.neg().a, f.c.clone()));
        } else {
            st.push((f.a.clone(), -f.c.clone()));
        }
        strict_feasible(self.w.len(), &le, &st)
    }
    pub fn contains(&self, x: &[Q]) -> bool {
        self.cons.iter().all(|(f, s)| f.eval(x).sign() == *s)
    }
    /// full-dimensional face with a point whose slack is >= ms * |a|_1 in every constraint?
    pub fn has_slack(&self, ms: &Q) -> bool {
        use crate::lp::{maximize, LpResult};
        let n = self.w.len();
        let mut rows = vec![];
        for (f, s) in &self.cons {
            if *s == 0 {
                return false;
            }
            let sq = Q::int(*s as i64);
            let mut norm = Q::ZERO;
            for v in &f.a {
                norm = norm + v.abs();
            }
            let mut a: Vec<Q> = f.a.iter().map(|v| -(v * &sq)).collect();
            a.push(norm);
            rows.push(Row::le(a, &f.c * &sq));
        }
        if rows.is_empty() {
            return true;
        }
        // only inputs of ordinary magnitude are judged: far from the origin the wedge between a rounded and
        // an ideal breakpoint is wide, but every input there is "within rounding distance of a breakpoint"
        let bound = Q::int(1 << 20);
        for j in 0..n {
            for sg in [1i64, -1] {
                let mut a = vec![Q::ZERO; n + 1];
                a[j] = Q::int(sg);
                rows.push(Row::le(a, bound.clone()));
            }
        }
        let mut c = vec![Q::ZERO; n + 1];
        c[n] = Q::ONE;
        match maximize(n + 1, &rows, &c) {
            LpResult::Unbounded => true,
            LpResult::Optimal(_, t) => t >= *ms,
            LpResult::Infeasible => false,
        }
    }
    pub fn to_json(&self) -> serde_json::Value {
        serde_json::json!({
            "witness": crate::q::fmt_vec(&self.w),
            "constraints": self.cons.iter().map(|(f,s)| serde_json::json!({"form": f.to_json(), "sign": s})).collect::<Vec<_>>()
        })
    }
}

#[derive(Clone, Debug, Default)]
pub struct Stats {
    pub faces: u64,
    pub lowdim_faces: u64,
    pub splits: u64,
    pub evals: u64,
    pub skipped_tolerant: u64,
}

impl Stats {
    pub fn add(&mut self, o: &Stats) {
        self.faces += o.faces;
        self.lowdim_faces += o.lowdim_faces;
        self.splits += o.splits;
        self.evals += o.evals;
        self.skipped_tolerant += o.skipped_tolerant;
    }
}

#[derive(Clone, Debug)]
pub enum MismatchKind {
    /// (impl defined, ref defined)
    Defined(bool, bool),
    OutDim(usize, usize),
    Value { row: usize },
    ImplError(String),
    /// the reference side is itself a snapshot of a real tree (e.g. the unpruned track) and cannot be evaluated
    RefError(String),
}

#[derive(Clone, Debug)]
pub struct Mismatch {
    pub kind: MismatchKind,
    pub face: Face,
    /// a point of the face at which the two sides differ
    pub point: Vec<Q>,
    pub impl_map: Option<AffMap>,
    pub ref_map: Option<AffMap>,
}

impl Mismatch {
    pub fn to_json(&self) -> serde_json::Value {
        serde_json::json!({
            "kind": format!("{:?}", self.kind),
            "point": crate::q::fmt_vec(&self.point),
            "face": self.face.to_json(),
            "impl_local_map": self.impl_map.as_ref().map(|m| m.to_json()),
            "ref_local_map": self.ref_map.as_ref().map(|m| m.to_json()),
        })
    }
}

#[derive(Clone, Debug)]
pub struct Config {
    /// None: exact comparison. Some(tol): coefficient-wise relative tolerance,
    /// used for programs with non-dyadic constants (DESIGN G2).
    pub coef_tol: Option<Q>,
    /// tolerant mode: judge only full-dimensional faces
    pub only_fulldim: bool,
    /// tolerant mode: judge only faces containing a point with this much slack (relative to
    /// the 1-norm of each constraint) in every constraint
    pub min_slack: Option<Q>,
    /// stop after this many mismatches
    pub max_mismatches: usize,
    /// safety cap on faces (reported, never silent)
    pub max_faces: u64,
}

impl Default for Config {
    fn default() -> Self {
        Config { coef_tol: None, only_fulldim: false, min_slack: None, max_mismatches: 4, max_faces: 5_000_000 }
    }
}

pub struct Outcome {
    pub stats: Stats,
    pub mismatches: Vec<Mismatch>,
    pub complete: bool,
}

fn step_off(face: &Face, w: &[Q], y: &[Q]) -> Vec<Q> {
    // point w - eps (y - w) that still satisfies every strict constraint of `face`
    let n = w.len();
    let d: Vec<Q> = (0..n).map(|i| &w[i] - &y[i]).collect();
    let mut eps = Q::ONE;
    for (f, s) in &face.cons {
        if *s == 0 {
            continue;
        }
        let sq = Q::int(*s as i64);
        let hw = &f.eval(w) * &sq; // > 0
        let slope = &dot(&f.a, &d) * &sq;
        if slope.is_neg() {
            let lim = &(&hw / &(-slope)) / &Q::int(2);
            if lim < eps {
                eps = lim;
            }
        }
    }
    (0..n).map(|i| &w[i] + &(&eps * &d[i])).collect()
}

/// Explore all faces of `start`; call `leaf` on every leaf face.
pub fn explore(
    start: Face,
    imp: &dyn Side,
    rf: &dyn Side,
    cfg: &Config,
    leaf: &mut dyn FnMut(&Face, &Option<AffMap>, &Option<AffMap>),
) -> Outcome {
    let mut stats = Stats::default();
    let mut mismatches = vec![];
    let mut stack = vec![start];
    let mut guards: Vec<Form> = Vec::new();
    let mut complete = true;
    'outer: while let Some(mut face) = stack.pop() {
        if stats.faces >= cfg.max_faces {
            complete = false;
            break;
        }
        guards.clear();
        stats.evals += 1;
        let a = imp.eval(&face.w, &mut guards);
        let b = match rf.eval(&face.w, &mut guards) {
            Ok(b) => b,
            Err(e) => {
                mismatches.push(Mismatch { kind: MismatchKind::RefError(e), point: face.w.clone(), face, impl_map: None, ref_map: None });
                complete = false;
                break;
            }
        };
        // find a guard that changes sign on the face
        let gs: Vec<Form> = guards.drain(..).collect();
        for g in gs.iter() {
            if g.is_const() {
                continue;
            }
            let ng = g.normalized();
            if face.known_sign(&ng).is_some() {
                continue;
            }
            let s = ng.eval(&face.w).sign();
            let opp: i8 = if s == 0 { 1 } else { -s };
            match face.find_with_sign(&ng, opp) {
                None => {
                    face.known.push((ng, s));
                }
                Some(y) => {
                    stats.splits += 1;
                    let w = face.w.clone();
                    let (wz, wo, ws);
                    if s == 0 {
                        wz = w.clone();
                        wo = y.clone();
                        ws = step_off(&face, &w, &y); // sign -1 side
                    } else {
                        let gw = ng.eval(&w);
                        let gy = ng.eval(&y);
                        let lam = &gw / &(&gw - &gy);
                        wz = (0..w.len()).map(|i| &w[i] + &(&lam * &(&y[i] - &w[i]))).collect();
                        wo = y.clone();
                        ws = w.clone();
                    }
                    let same_sign = if s == 0 { -1 } else { s };
                    for (sg, wit) in [(0i8, wz), (opp, wo), (same_sign, ws)] {
                        debug_assert_eq!(ng.eval(&wit).sign(), sg);
                        let mut c = face.clone();
                        c.cons.push((ng.clone(), sg));
                        c.known.push((ng.clone(), sg));
                        c.w = wit;
                        debug_assert!(c.contains(&c.w));
                        stack.push(c);
                    }
                    continue 'outer;
                }
            }
        }
        // leaf face: both sides are affine on it
        stats.faces += 1;
        let lowdim = face.n_eq() > 0;
        if lowdim {
            stats.lowdim_faces += 1;
        }
        let a = match a {
            Ok(a) => a,
            Err(e) => {
                mismatches.push(Mismatch {
                    kind: MismatchKind::ImplError(e),
                    point: face.w.clone(),
                    face,
                    impl_map: None,
                    ref_map: b,
                });
                if mismatches.len() >= cfg.max_mismatches {
                    complete = false;
                    break;
                }
                continue;
            }
        };
        leaf(&face, &a, &b);
        if cfg.only_fulldim && lowdim {
            stats.skipped_tolerant += 1;
            continue;
        }
        if let Some(ms) = &cfg.min_slack {
            if !face.has_slack(ms) {
                stats.skipped_tolerant += 1;
                continue;
            }
        }
        let mm = compare(&face, &a, &b, cfg);
        if let Some(m) = mm {
            mismatches.push(m);
            if mismatches.len() >= cfg.max_mismatches {
                complete = false;
                break;
            }
        }
    }
    Outcome { stats, mismatches, complete }
}

fn compare(face: &Face, a: &Option<AffMap>, b: &Option<AffMap>, cfg: &Config) -> Option<Mismatch> {
    let mk = |kind, point: Vec<Q>| Mismatch {
        kind,
        face: face.clone(),
        point,
        impl_map: a.clone(),
        ref_map: b.clone(),
    };
    match (a, b) {
        (None, None) => None,
        (Some(_), None) => Some(mk(MismatchKind::Defined(true, false), face.w.clone())),
        (None, Some(_)) => Some(mk(MismatchKind::Defined(false, true), face.w.clone())),
        (Some(x), Some(y)) => {
            if x.outdim() != y.outdim() {
                return Some(mk(MismatchKind::OutDim(x.outdim(), y.outdim()), face.w.clone()));
            }
            for i in 0..x.outdim() {
                let d = x.row(i).sub(&y.row(i));
                if d.is_const() && d.c.is_zero() {
                    continue;
                }
                if let Some(tol) = &cfg.coef_tol {
                    // coefficient-wise closeness (only meaningful on full-dimensional faces)
                    let yr = y.row(i);
                    let close = |dv: &Q, rv: &Q| dv.abs() <= tol * &Q::max(&Q::ONE, &rv.abs());
                    if d.a.iter().zip(yr.a.iter()).all(|(dv, rv)| close(dv, rv)) && close(&d.c, &yr.c) {
                        continue;
                    }
                    if face.n_eq() == 0 {
                        return Some(mk(MismatchKind::Value { row: i }, face.w.clone()));
                    }
                    // lower-dimensional face in tolerant mode: compare values at the witness only
                    let dv = d.eval(&face.w);
                    if close(&dv, &yr.eval(&face.w)) {
                        continue;
                    }
                    return Some(mk(MismatchKind::Value { row: i }, face.w.clone()));
                }
                if !d.eval(&face.w).is_zero() {
                    return Some(mk(MismatchKind::Value { row: i }, face.w.clone()));
                }
                if d.is_const() {
                    continue; // constant zero at w => zero
                }
                // d(w) = 0: d == 0 on the face iff no point has d > 0 (Appendix A1)
                if let Some(p) = face.find_with_sign(&d, 1) {
                    return Some(mk(MismatchKind::Value { row: i }, p));
                }
            }
            None
        }
    }
}

/// A side given by a closure (handy for small reference models).
pub struct FnSide<F: Fn(&[Q], &mut Vec<Form>) -> Result<Option<AffMap>, String>>(pub F);
impl<F: Fn(&[Q], &mut Vec<Form>) -> Result<Option<AffMap>, String>> Side for FnSide<F> {
    fn eval(&self, x: &[Q], guards: &mut Vec<Form>) -> Result<Option<AffMap>, String> {
        (self.0)(x, guards)
    }
}

#[cfg(test)]
mod tests {
    use super::*;
    use crate::q::q;

    fn relu(strict: bool) -> impl Side {
        FnSide(move |x: &[Q], g: &mut Vec<Form>| {
            g.push(Form::new(vec![q(1)], q(0)));
            let neg = if strict { x[0].is_neg() } else { x[0].sign() <= 0 };
            Ok(Some(if neg {
                AffMap { m: vec![vec![q(0)]], c: vec![q(0)] }
            } else {
                AffMap::identity(1)
            }))
        })
    }

    #[test]
    fn relu_equal() {
        let o = explore(Face::whole(1), &relu(true), &relu(false), &Config::default(), &mut |_, _, _| {});
        assert!(o.mismatches.is_empty());
        assert_eq!(o.stats.faces, 3);
        assert_eq!(o.stats.lowdim_faces, 1);
    }

    #[test]
    fn detects_boundary_only_difference() {
        // differs only at x = 1
        let a = FnSide(|x: &[Q], g: &mut Vec<Form>| {
            g.push(Form::new(vec![q(1)], q(-1)));
            Ok(Some(if x[0] <= q(1) { AffMap { m: vec![vec![q(0)]], c: vec![q(5)] } } else { AffMap::identity(1) }))
        });
        let b = FnSide(|x: &[Q], g: &mut Vec<Form>| {
            g.push(Form::new(vec![q(1)], q(-1)));
            Ok(Some(if x[0] < q(1) { AffMap { m: vec![vec![q(0)]], c: vec![q(5)] } } else { AffMap::identity(1) }))
        });
        let o = explore(Face::whole(1), &a, &b, &Config::default(), &mut |_, _, _| {});
        assert_eq!(o.mismatches.len(), 1);
        assert_eq!(o.mismatches[0].point, vec![q(1)]);
    }
}
