//! Evidence files, violation replay records and known-finding matching (DESIGN 3.8, 6).

use serde_json::{json, Map, Value};
use std::collections::BTreeMap;
use std::path::PathBuf;
use std::time::Instant;

pub fn root() -> PathBuf {
    PathBuf::from(std::env::var("VERIF_ROOT").unwrap_or_else(|_| "/verif".to_string()))
}

#[derive(Clone, Copy, Debug, PartialEq, Eq)]
pub enum Tier {
    Quick,
    Thorough,
}

impl Tier {
    pub fn name(&self) -> &'static str {
        match self {
            Tier::Quick => "quick",
            Tier::Thorough => "thorough",
        }
    }
}

#[derive(Clone, Debug)]
pub struct Violation {
    /// what failed, in the vocabulary known_findings.json signatures use
    pub tags: BTreeMap<String, String>,
    /// one line for humans
    pub summary: String,
    /// everything needed to rebuild the case with public constructors
    pub record: Value,
}

impl Violation {
    pub fn new(summary: impl Into<String>, record: Value) -> Violation {
        Violation { tags: BTreeMap::new(), summary: summary.into(), record }
    }
    pub fn tag(mut self, k: &str, v: impl ToString) -> Violation {
        self.tags.insert(k.to_string(), v.to_string());
        self
    }
}

/// per-case result, merged by the driver
#[derive(Clone, Debug, Default)]
pub struct CaseOut {
    pub counters: BTreeMap<&'static str, u64>,
    /// representative violations: at most KEEP per distinct tag set
    pub violations: Vec<Violation>,
    /// number of violating cases per distinct tag set
    pub vcount: BTreeMap<String, u64>,
    pub sample: Option<Value>,
}

const KEEP: usize = 2;

impl CaseOut {
    pub fn add(&mut self, k: &'static str, v: u64) {
        *self.counters.entry(k).or_insert(0) += v;
    }
    pub fn violate(&mut self, v: Violation) {
        let key = format!("{:?}", v.tags);
        *self.vcount.entry(key.clone()).or_insert(0) += 1;
        self.keep(key, v);
    }
    fn keep(&mut self, key: String, v: Violation) {
        let stored = self.violations.iter().filter(|x| format!("{:?}", x.tags) == key).count();
        if stored < KEEP {
            self.violations.push(v);
        }
    }
    pub fn merge(&mut self, o: CaseOut) {
        for (k, v) in o.counters {
            *self.counters.entry(k).or_insert(0) += v;
        }
        for (k, c) in o.vcount {
            *self.vcount.entry(k).or_insert(0) += c;
        }
        for v in o.violations {
            let key = format!("{:?}", v.tags);
            self.keep(key, v);
        }
        if self.sample.is_none() {
            self.sample = o.sample;
        }
    }
}

#[derive(Clone, Debug)]
pub struct Finding {
    pub id: String,
    pub property: String,
    pub status: String,
    pub signature: BTreeMap<String, String>,
    pub description: String,
}

pub fn load_findings() -> Vec<Finding> {
    let p = root().join("known_findings.json");
    let txt = match std::fs::read_to_string(&p) {
        Ok(t) => t,
        Err(_) => return vec![],
    };
    let v: Value = serde_json::from_str(&txt).expect("known_findings.json is not valid JSON");
    let mut out = vec![];
    for e in v["findings"].as_array().cloned().unwrap_or_default() {
        let mut sig = BTreeMap::new();
        if let Some(m) = e["signature"].as_object() {
            for (k, v) in m {
                sig.insert(k.clone(), v.as_str().map(|s| s.to_string()).unwrap_or_else(|| v.to_string()));
            }
        }
        out.push(Finding {
            id: e["id"].as_str().unwrap_or("").to_string(),
            property: e["property"].as_str().unwrap_or("").to_string(),
            status: e["status"].as_str().unwrap_or("open").to_string(),
            signature: sig,
            description: e["description"].as_str().unwrap_or("").to_string(),
        });
    }
    out
}

pub struct Report {
    pub id: String,
    pub tier: Tier,
    pub seed: i64,
    pub level: &'static str,
    pub start: Instant,
    pub coverage: Map<String, Value>,
    pub assumptions: Vec<String>,
    pub violations: Vec<Violation>,
    pub vcount: BTreeMap<String, u64>,
    pub samples: Vec<Value>,
    pub exhaustive: bool,
}

impl Report {
    pub fn new(id: &str, tier: Tier, level: &'static str) -> Report {
        let seed = std::env::var("VERIF_SEED").ok().and_then(|s| s.parse::<i64>().ok()).unwrap_or(0);
        *WATCH_ID.lock().unwrap() = Some((id.to_string(), tier.name()));
        Report {
            id: id.to_string(),
            tier,
            seed,
            level,
            start: Instant::now(),
            coverage: Map::new(),
            assumptions: vec![],
            violations: vec![],
            vcount: BTreeMap::new(),
            samples: vec![],
            exhaustive: true,
        }
    }
    pub fn set(&mut self, k: &str, v: impl Into<Value>) {
        self.coverage.insert(k.to_string(), v.into());
    }
    pub fn add_count(&mut self, k: &str, v: u64) {
        let cur = self.coverage.get(k).and_then(|x| x.as_u64()).unwrap_or(0);
        self.coverage.insert(k.to_string(), json!(cur + v));
    }
    pub fn absorb(&mut self, out: CaseOut) {
        for (k, v) in out.counters {
            self.add_count(k, v);
        }
        self.violations.extend(out.violations);
        for (k, c) in out.vcount {
            *self.vcount.entry(k).or_insert(0) += c;
        }
        if let Some(s) = out.sample {
            if self.samples.len() < 3 {
                self.samples.push(s);
            }
        }
    }
    pub fn assume(&mut self, s: &str) {
        self.assumptions.push(s.to_string());
    }

    /// Writes evidence, prints KNOWN-FINDING / VIOLATION lines, returns the exit code.
    pub fn finish(mut self) -> i32 {
        let findings = load_findings();
        let mut matched: BTreeMap<String, (u64, String)> = BTreeMap::new();
        let mut unmatched: Vec<Violation> = vec![];
        for v in self.violations.drain(..) {
            let mut hit = None;
            for f in &findings {
                if f.property == self.id
                    && f.status == "open"
                    && !f.signature.is_empty()
                    && f.signature.iter().all(|(k, val)| v.tags.get(k) == Some(val))
                {
                    hit = Some(f);
                    break;
                }
            }
            match hit {
                Some(f) => {
                    let e = matched.entry(f.id.clone()).or_insert((0, f.description.clone()));
                    e.0 += self.vcount.get(&format!("{:?}", v.tags)).copied().unwrap_or(1);
                    // counted once per tag set
                    self.vcount.remove(&format!("{:?}", v.tags));
                }
                None => unmatched.push(v),
            }
        }
        for (fid, (n, descr)) in &matched {
            println!("KNOWN-FINDING: property={} {} [{}; {} matching cases in this run]", self.id, descr, fid, n);
        }
        let rdir = root().join("replays");
        let mut code = 0;
        if !unmatched.is_empty() {
            code = 1;
            let _ = std::fs::create_dir_all(&rdir);
            // group by tags so that one line is printed per distinct failure signature
            let mut seen: BTreeMap<String, usize> = BTreeMap::new();
            let mut written = 0;
            for v in &unmatched {
                let key = format!("{:?}", v.tags);
                let c = seen.entry(key).or_insert(0);
                *c += 1;
                if *c > 1 || written >= 8 {
                    continue;
                }
                written += 1;
                let path = rdir.join(format!("{}-{}.json", self.id, written));
                let rec = json!({
                    "property": self.id, "tier": self.tier.name(), "summary": v.summary,
                    "tags": v.tags, "record": v.record
                });
                std::fs::write(&path, serde_json::to_string_pretty(&rec).unwrap()).expect("cannot write replay");
                println!("VIOLATION property={} replay={}", self.id, path.display());
                println!("  {}", v.summary);
            }
            let total: u64 = unmatched.iter().map(|v| self.vcount.get(&format!("{:?}", v.tags)).copied().unwrap_or(1)).sum::<u64>();
            println!("  ({} distinct failure signatures; about {} violating cases)", seen.len(), total);
        }
        let wall = self.start.elapsed().as_secs_f64();
        self.coverage.insert("samples".into(), Value::Array(self.samples.clone()));
        self.coverage.insert("exhaustive".into(), json!(self.exhaustive));
        self.coverage.insert(
            "known_findings_matched".into(),
            json!(matched.iter().map(|(k, v)| json!({"id": k, "cases": v.0})).collect::<Vec<_>>()),
        );
        self.coverage.insert("lp_calls_exact".into(), json!(crate::lp::LP_CALLS.load(std::sync::atomic::Ordering::Relaxed)));
        self.coverage.insert("bigint_promotions".into(), json!(crate::q::BIG_PROMOTIONS.load(std::sync::atomic::Ordering::Relaxed)));
        let ev = json!({
            "property_id": self.id,
            "tier": self.tier.name(),
            "seed": self.seed,
            "level": self.level,
            "coverage": Value::Object(self.coverage.clone()),
            "assumptions": self.assumptions,
            "wall_s": wall,
            "violations": unmatched.len(),
        });
        if std::env::var("VERIF_ONLY").is_ok() {
            // replay of a single case: evidence of the last full run is left untouched
            return code;
        }
        let edir = root().join("evidence");
        let _ = std::fs::create_dir_all(&edir);
        std::fs::write(edir.join(format!("{}.json", self.id)), serde_json::to_string_pretty(&ev).unwrap())
            .expect("cannot write evidence");
        println!(
            "{} {}: {} in {:.1}s; coverage: {}",
            self.id,
            self.tier.name(),
            if code == 0 { "held on everything explored" } else { "VIOLATED" },
            wall,
            summarize(&self.coverage)
        );
        code
    }
}

fn summarize(m: &Map<String, Value>) -> String {
    let mut parts = vec![];
    for (k, v) in m {
        if v.is_u64() || v.is_boolean() {
            parts.push(format!("{}={}", k, v));
        }
    }
    parts.join(" ")
}

/// silence panic messages of the subject (they are observations, not crashes)
pub fn quiet_panics() {
    std::panic::set_hook(Box::new(|info| {
        if std::env::var("VERIF_PANIC_TRACE").is_ok() {
            eprintln!("panic: {info}");
        }
    }));
}

pub fn catch<T>(f: impl FnOnce() -> T) -> Result<T, String> {
    match std::panic::catch_unwind(std::panic::AssertUnwindSafe(f)) {
        Ok(v) => Ok(v),
        Err(e) => {
            let msg = if let Some(s) = e.downcast_ref::<&str>() {
                s.to_string()
            } else if let Some(s) = e.downcast_ref::<String>() {
                s.clone()
            } else {
                "panic".to_string()
            };
            Err(msg)
        }
    }
}

/// Run `f` over all cases on all cores, merging results deterministically (in case order).
pub static STAGE: std::sync::atomic::AtomicUsize = std::sync::atomic::AtomicUsize::new(0);

// ---- watchdog: a case that does not terminate is a finding about the subject, not a hung check
static WATCH: std::sync::Mutex<Vec<(std::thread::ThreadId, Instant, usize, usize)>> = std::sync::Mutex::new(Vec::new());
static WATCH_ID: std::sync::Mutex<Option<(String, &'static str)>> = std::sync::Mutex::new(None);
static WATCH_STARTED: std::sync::atomic::AtomicBool = std::sync::atomic::AtomicBool::new(false);

fn case_timeout_s() -> u64 {
    std::env::var("VERIF_CASE_TIMEOUT_S").ok().and_then(|s| s.parse().ok()).unwrap_or(1800)
}

fn watch_begin(stage: usize, idx: usize) {
    let me = std::thread::current().id();
    let mut w = WATCH.lock().unwrap();
    w.retain(|e| e.0 != me);
    w.push((me, Instant::now(), stage, idx));
    drop(w);
    if !WATCH_STARTED.swap(true, std::sync::atomic::Ordering::SeqCst) {
        std::thread::spawn(|| loop {
            std::thread::sleep(std::time::Duration::from_secs(2));
            let limit = case_timeout_s();
            let hit = WATCH.lock().unwrap().iter().find(|e| e.1.elapsed().as_secs() > limit).map(|e| (e.2, e.3));
            if let Some((stage, idx)) = hit {
                let (id, tier) = WATCH_ID.lock().unwrap().clone().unwrap_or(("unknown".into(), "quick"));
                let rdir = root().join("replays");
                let _ = std::fs::create_dir_all(&rdir);
                let path = rdir.join(format!("{}-timeout.json", id));
                let summary = format!("case (stage {stage}, index {idx}) did not terminate within {limit} s: an operation of the library hangs");
                let rec = json!({"property": id, "tier": tier, "summary": summary, "tags": {"kind": "timeout"}, "record": {"replay_stage": stage, "replay_case_index": idx}});
                let _ = std::fs::write(&path, serde_json::to_string_pretty(&rec).unwrap());
                println!("VIOLATION property={} replay={}", id, path.display());
                println!("  {summary}");
                std::process::exit(1);
            }
        });
    }
}

fn watch_end() {
    let me = std::thread::current().id();
    WATCH.lock().unwrap().retain(|e| e.0 != me);
}

/// `VERIF_ONLY=<stage>:<index>` restricts a run to one case (used by `./check replay`).
fn only_filter() -> Option<(usize, usize)> {
    let v = std::env::var("VERIF_ONLY").ok()?;
    let mut it = v.split(':');
    Some((it.next()?.parse().ok()?, it.next()?.parse().ok()?))
}

pub fn par_cases<C: Sync, F: Fn(usize, &C) -> CaseOut + Sync>(cases: &[C], f: F) -> CaseOut {
    use rayon::prelude::*;
    let stage = STAGE.fetch_add(1, std::sync::atomic::Ordering::SeqCst);
    let tag = |mut o: CaseOut, idx: usize| -> CaseOut {
        for v in o.violations.iter_mut() {
            if let Some(m) = v.record.as_object_mut() {
                m.insert("replay_stage".into(), serde_json::json!(stage));
                m.insert("replay_case_index".into(), serde_json::json!(idx));
            }
        }
        o
    };
    if let Some((st, idx)) = only_filter() {
        if st != stage || idx >= cases.len() {
            return CaseOut::default();
        }
        println!("replaying stage {stage} case {idx}");
        let o = tag(f(idx, &cases[idx]), idx);
        for v in &o.violations {
            println!("  observed: {}", v.summary);
        }
        if o.violations.is_empty() {
            println!("  observed: no violation for this case");
        }
        return o;
    }
    let chunk = (cases.len() / 65536).max(1);
    let outs: Vec<CaseOut> = cases
        .par_chunks(chunk)
        .enumerate()
        .map(|(ci, ch)| {
            let mut acc = CaseOut::default();
            for (j, c) in ch.iter().enumerate() {
                let idx = ci * chunk + j;
                watch_begin(stage, idx);
                let o = tag(f(idx, c), idx);
                watch_end();
                acc.merge(o);
            }
            acc
        })
        .collect();
    let mut total = CaseOut::default();
    for o in outs {
        total.merge(o);
    }
    total
}

/// Marks a value as shareable between the worker threads although its type does not say so. Used for subjects that may
/// contain interior mutability (a cache cell in the tree, say): every value is only ever touched by one worker at a
/// time (one case = one value), which is all the explorers need.
#[derive(Clone)]
pub struct AssertSync<T>(pub T);
unsafe impl<T> Sync for AssertSync<T> {}
unsafe impl<T> Send for AssertSync<T> {}

