//! affmc — bounded exhaustive exploration of Conturing/affinitree (see /verif/DESIGN.md)
mod gen;
mod hist;
mod lp;
mod props;
mod q;
mod refnet;
mod regions;
mod report;
mod snap;

use report::Tier;

fn main() {
    let args: Vec<String> = std::env::args().collect();
    if args.len() < 3 {
        eprintln!("usage: affmc <C01..C19|selftest> <quick|thorough>");
        std::process::exit(2);
    }
    let tier = match args[2].as_str() {
        "quick" => Tier::Quick,
        "thorough" => Tier::Thorough,
        _ => {
            eprintln!("tier must be quick or thorough");
            std::process::exit(2);
        }
    };
    report::quiet_panics();
    let code = props::dispatch(&args[1], tier);
    std::process::exit(code);
}
