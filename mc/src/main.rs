//! affmc — bounded exhaustive exploration of Conturing/affinitree (see /verif/DESIGN.md)
mod gen;
mod hist;
mod lp;
mod props;
mod q;
mod refnet;
mod regions;
mod report;
mod snap;

use report::Tier;

fn main() {
    let args: Vec<String> = std::env::args().collect();
    if args.len() < 3 {
        eprintln!("usage: affmc <C01..C19|selftest> <quick|thorough>");
        std::process::exit(2);
    }
    let tier = match args[2].as_str() {
        "quick" => Tier::Quick,
        "thorough" => Tier::Thorough,
        _ => {
            eprintln!("tier must be quick or thorough");
            std::process::exit(2);
        }
    };
    report::quiet_panics();
    // A logger that discards everything, enabled up to Info: the arguments of the library's error! / warn! / info!
    // calls are then evaluated as they are in an application that logs (debug! / trace! stay off: they format whole
    // polytopes on hot paths).
    struct Sink;
    impl log::Log for Sink {
        fn enabled(&self, m: &log::Metadata) -> bool {
            m.level() <= log::Level::Info
        }
        fn log(&self, r: &log::Record) {
            // force the formatting of the message
            let _ = format!("{}", r.args());
        }
        fn flush(&self) {}
    }
    static SINK: Sink = Sink;
    let _ = log::set_logger(&SINK);
    log::set_max_level(log::LevelFilter::Info);
    let code = props::dispatch(&args[1], tier);
    std::process::exit(code);
}
