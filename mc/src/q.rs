//! Exact rational numbers: fast i128 path with automatic promotion to BigInt.
//!
//! `Q` never rounds and never fails: every operation first tries checked i128
//! arithmetic on a normalised fraction and, on overflow, redoes the operation
//! over `num_bigint::BigInt`.  f64 -> Q is exact (mantissa / exponent).

use num_bigint::BigInt;
use num_integer::Integer;
use num_traits::{One, Signed, ToPrimitive, Zero};
use std::cmp::Ordering;
use std::fmt;
use std::ops::{Add, Div, Mul, Neg, Sub};
use std::sync::atomic::{AtomicU64, Ordering as AO};

pub static BIG_PROMOTIONS: AtomicU64 = AtomicU64::new(0);

#[derive(Clone, Debug)]
pub enum Q {
    S(i128, i128),             // num/den, den > 0, gcd = 1
    B(Box<(BigInt, BigInt)>), // same invariants
}

fn gcd128(a: i128, b: i128) -> i128 {
    let (mut a, mut b) = (a.unsigned_abs(), b.unsigned_abs());
    while b != 0 {
        let t = a % b;
        a = b;
        b = t;
    }
    a as i128
}

impl Q {
    pub const ZERO: Q = Q::S(0, 1);
    pub const ONE: Q = Q::S(1, 1);

    pub fn int(n: i64) -> Q {
        Q::S(n as i128, 1)
    }

    pub fn frac(n: i64, d: i64) -> Q {
        assert!(d != 0);
        Q::norm_small(n as i128, d as i128)
    }

    fn norm_small(n: i128, d: i128) -> Q {
        debug_assert!(d != 0);
        if n == 0 {
            return Q::S(0, 1);
        }
        let g = gcd128(n, d);
        let (mut n, mut d) = (n / g, d / g);
        if d < 0 {
            // i128::MIN cannot be negated; extremely unlikely, go big.
            if n == i128::MIN || d == i128::MIN {
                return Q::norm_big(BigInt::from(n), BigInt::from(d));
            }
            n = -n;
            d = -d;
        }
        Q::S(n, d)
    }

    fn norm_big(n: BigInt, d: BigInt) -> Q {
        assert!(!d.is_zero());
        if n.is_zero() {
            return Q::S(0, 1);
        }
        let g = n.gcd(&d);
        let (mut n, mut d) = (n / &g, d / &g);
        if d.is_negative() {
            n = -n;
            d = -d;
        }
        if let (Some(a), Some(b)) = (n.to_i128(), d.to_i128()) {
            // keep head-room so that the next small op does not overflow at once
            if a.unsigned_abs() < (1u128 << 100) && b.unsigned_abs() < (1u128 << 100) {
                return Q::S(a, b);
            }
        }
        Q::B(Box::new((n, d)))
    }

    fn big(&self) -> (BigInt, BigInt) {
        match self {
            Q::S(n, d) => (BigInt::from(*n), BigInt::from(*d)),
            Q::B(b) => (b.0.clone(), b.1.clone()),
        }
    }

    /// Exact conversion of a finite f64.
    pub fn from_f64(x: f64) -> Q {
        assert!(x.is_finite(), "Q::from_f64: non-finite {x}");
        if x == 0.0 {
            return Q::ZERO;
        }
        let bits = x.to_bits();
        let sign: i128 = if (bits >> 63) != 0 { -1 } else { 1 };
        let exp = ((bits >> 52) & 0x7ff) as i64;
        let frac = (bits & ((1u64 << 52) - 1)) as i128;
        let (mant, e) = if exp == 0 {
            (frac, -1074i64)
        } else {
            (frac | (1i128 << 52), exp - 1075)
        };
        // value = sign * mant * 2^e
        let tz = mant.trailing_zeros() as i64;
        let mant = mant >> tz;
        let e = e + tz;
        if e >= 0 {
            if e < 70 {
                Q::S(sign * mant * (1i128 << e), 1)
            } else {
                Q::norm_big(BigInt::from(sign * mant) << (e as usize), BigInt::one())
            }
        } else if -e < 120 {
            Q::S(sign * mant, 1i128 << (-e))
        } else {
            Q::norm_big(BigInt::from(sign * mant), BigInt::one() << ((-e) as usize))
        }
    }

    /// Nearest f64 (exact when the value is a small dyadic).
    pub fn to_f64(&self) -> f64 {
        match self {
            Q::S(n, d) => {
                if *d == 1 && n.unsigned_abs() < (1u128 << 53) {
                    return *n as f64;
                }
                if (*d as u128).is_power_of_two() && n.unsigned_abs() < (1u128 << 53) {
                    return (*n as f64) / (*d as f64);
                }
                (*n as f64) / (*d as f64)
            }
            Q::B(b) => {
                // scale to keep precision
                let (n, d) = (&b.0, &b.1);
                let nb = n.bits() as i64;
                let db = d.bits() as i64;
                let shift = (db - nb + 64).max(0) as usize;
                let q: BigInt = (n << shift) / d;
                let mut f = q.to_f64().unwrap_or(f64::NAN);
                // f * 2^-shift without underflow of the scale factor itself
                let mut left = shift as i64;
                while left > 0 {
                    let step = left.min(512);
                    f *= (2f64).powi(-(step as i32));
                    left -= step;
                }
                f
            }
        }
    }

    /// Some(f) iff the value is exactly representable as f64 (checked by round trip).
    pub fn to_f64_exact(&self) -> Option<f64> {
        let f = self.to_f64();
        if f.is_finite() && Q::from_f64(f) == *self {
            Some(f)
        } else {
            None
        }
    }

    pub fn is_zero(&self) -> bool {
        matches!(self, Q::S(0, _))
    }

    pub fn sign(&self) -> i8 {
        match self {
            Q::S(n, _) => n.signum() as i8,
            Q::B(b) => {
                if b.0.is_negative() {
                    -1
                } else if b.0.is_zero() {
                    0
                } else {
                    1
                }
            }
        }
    }

    pub fn is_neg(&self) -> bool {
        self.sign() < 0
    }
    pub fn is_pos(&self) -> bool {
        self.sign() > 0
    }

    pub fn abs(&self) -> Q {
        if self.is_neg() {
            -self.clone()
        } else {
            self.clone()
        }
    }

    pub fn recip(&self) -> Q {
        assert!(!self.is_zero(), "division by zero");
        match self {
            Q::S(n, d) => Q::norm_small(*d, *n),
            Q::B(b) => Q::norm_big(b.1.clone(), b.0.clone()),
        }
    }

    pub fn is_integer(&self) -> bool {
        match self {
            Q::S(_, d) => *d == 1,
            Q::B(b) => b.1.is_one(),
        }
    }

    pub fn max(a: &Q, b: &Q) -> Q {
        if a >= b {
            a.clone()
        } else {
            b.clone()
        }
    }
    pub fn min(a: &Q, b: &Q) -> Q {
        if a <= b {
            a.clone()
        } else {
            b.clone()
        }
    }

    fn add_impl(a: &Q, b: &Q) -> Q {
        if let (Q::S(an, ad), Q::S(bn, bd)) = (a, b) {
            if ad == bd {
                if let Some(n) = an.checked_add(*bn) {
                    return Q::norm_small(n, *ad);
                }
            } else {
                let g = gcd128(*ad, *bd);
                let l = (*ad / g).checked_mul(*bd);
                let x = an.checked_mul(*bd / g);
                let y = bn.checked_mul(*ad / g);
                if let (Some(l), Some(x), Some(y)) = (l, x, y) {
                    if let Some(n) = x.checked_add(y) {
                        return Q::norm_small(n, l);
                    }
                }
            }
        }
        BIG_PROMOTIONS.fetch_add(1, AO::Relaxed);
        let (an, ad) = a.big();
        let (bn, bd) = b.big();
        Q::norm_big(an * &bd + bn * &ad, ad * bd)
    }

    fn mul_impl(a: &Q, b: &Q) -> Q {
        if let (Q::S(an, ad), Q::S(bn, bd)) = (a, b) {
            if *an == 0 || *bn == 0 {
                return Q::ZERO;
            }
            let g1 = gcd128(*an, *bd);
            let g2 = gcd128(*bn, *ad);
            let n = (an / g1).checked_mul(bn / g2);
            let d = (ad / g2).checked_mul(bd / g1);
            if let (Some(n), Some(d)) = (n, d) {
                return Q::norm_small(n, d);
            }
        }
        BIG_PROMOTIONS.fetch_add(1, AO::Relaxed);
        let (an, ad) = a.big();
        let (bn, bd) = b.big();
        Q::norm_big(an * bn, ad * bd)
    }
}

impl PartialEq for Q {
    fn eq(&self, o: &Q) -> bool {
        match (self, o) {
            (Q::S(a, b), Q::S(c, d)) => a == c && b == d,
            _ => self.big() == o.big(),
        }
    }
}
impl Eq for Q {}

impl std::hash::Hash for Q {
    fn hash<H: std::hash::Hasher>(&self, h: &mut H) {
        match self {
            Q::S(a, b) => {
                a.hash(h);
                b.hash(h);
            }
            Q::B(b) => {
                // normalised: a big value never equals a small one unless it fits, in which
                // case norm_big would have produced S (below 2^100) - values between 2^100 and
                // 2^127 may exist in both forms; hash via BigInt digits to stay consistent.
                if let (Some(x), Some(y)) = (b.0.to_i128(), b.1.to_i128()) {
                    x.hash(h);
                    y.hash(h);
                } else {
                    b.0.hash(h);
                    b.1.hash(h);
                }
            }
        }
    }
}

impl PartialOrd for Q {
    fn partial_cmp(&self, o: &Q) -> Option<Ordering> {
        Some(self.cmp(o))
    }
}
impl Ord for Q {
    fn cmp(&self, o: &Q) -> Ordering {
        if let (Q::S(an, ad), Q::S(bn, bd)) = (self, o) {
            if ad == bd {
                return an.cmp(bn);
            }
            if let (Some(x), Some(y)) = (an.checked_mul(*bd), bn.checked_mul(*ad)) {
                return x.cmp(&y);
            }
        }
        let (an, ad) = self.big();
        let (bn, bd) = o.big();
        (an * bd).cmp(&(bn * ad))
    }
}

impl Neg for Q {
    type Output = Q;
    fn neg(self) -> Q {
        match self {
            Q::S(n, d) => {
                if n == i128::MIN {
                    Q::norm_big(-BigInt::from(n), BigInt::from(d))
                } else {
                    Q::S(-n, d)
                }
            }
            Q::B(b) => Q::B(Box::new((-b.0, b.1))),
        }
    }
}
impl Neg for &Q {
    type Output = Q;
    fn neg(self) -> Q {
        -self.clone()
    }
}

macro_rules! binop {
    ($tr:ident, $m:ident, $f:expr) => {
        impl $tr<&Q> for &Q {
            type Output = Q;
            fn $m(self, o: &Q) -> Q {
                $f(self, o)
            }
        }
        impl $tr<Q> for Q {
            type Output = Q;
            fn $m(self, o: Q) -> Q {
                $f(&self, &o)
            }
        }
        impl $tr<&Q> for Q {
            type Output = Q;
            fn $m(self, o: &Q) -> Q {
                $f(&self, o)
            }
        }
        impl $tr<Q> for &Q {
            type Output = Q;
            fn $m(self, o: Q) -> Q {
                $f(self, &o)
            }
        }
    };
}
binop!(Add, add, |a: &Q, b: &Q| Q::add_impl(a, b));
binop!(Sub, sub, |a: &Q, b: &Q| Q::add_impl(a, &-b.clone()));
binop!(Mul, mul, |a: &Q, b: &Q| Q::mul_impl(a, b));
binop!(Div, div, |a: &Q, b: &Q| Q::mul_impl(a, &b.recip()));

impl fmt::Display for Q {
    fn fmt(&self, f: &mut fmt::Formatter) -> fmt::Result {
        match self {
            Q::S(n, 1) => write!(f, "{}", n),
            Q::S(n, d) => write!(f, "{}/{}", n, d),
            Q::B(b) => {
                if b.1.is_one() {
                    write!(f, "{}", b.0)
                } else {
                    write!(f, "{}/{}", b.0, b.1)
                }
            }
        }
    }
}

pub fn q(n: i64) -> Q {
    Q::int(n)
}

pub fn dot(a: &[Q], b: &[Q]) -> Q {
    debug_assert_eq!(a.len(), b.len());
    let mut s = Q::ZERO;
    for (x, y) in a.iter().zip(b.iter()) {
        if !x.is_zero() && !y.is_zero() {
            s = s + x * y;
        }
    }
    s
}

pub fn vec_from_f64(v: &[f64]) -> Vec<Q> {
    v.iter().map(|x| Q::from_f64(*x)).collect()
}

pub fn fmt_vec(v: &[Q]) -> Vec<String> {
    v.iter().map(|x| x.to_string()).collect()
}

#[cfg(test)]
mod tests {
    use super::*;
    #[test]
    fn basics() {
        let a = Q::frac(1, 3);
        let b = Q::frac(1, 6);
        assert_eq!(&a + &b, Q::frac(1, 2));
        assert_eq!(&a - &b, Q::frac(1, 6));
        assert_eq!(&a * &b, Q::frac(1, 18));
        assert_eq!(&a / &b, Q::int(2));
        assert!(a > b);
        assert_eq!(Q::from_f64(0.5), Q::frac(1, 2));
        assert_eq!(Q::from_f64(-0.75), Q::frac(-3, 4));
        assert_eq!(Q::from_f64(1.0 / 6.0).to_f64(), 1.0 / 6.0);
        assert_eq!(Q::from_f64(0.1).to_f64_exact(), Some(0.1));
        assert_eq!(Q::frac(1, 3).to_f64_exact(), None);
        // promotion
        let x = Q::from_f64(0.1);
        let mut p = Q::ONE;
        for _ in 0..10 {
            p = &p * &x;
        }
        let mut r = p.clone();
        for _ in 0..10 {
            r = &r / &x;
        }
        assert_eq!(r, Q::ONE);
        assert!(matches!(r, Q::S(1, 1)));
    }
}
