//! Reference models (DESIGN 3.4): network semantics and textbook activation
//! definitions over exact rationals.  Deliberately boring.

use crate::q::{dot, Q};
use crate::regions::{AffMap, Form, Side};

#[derive(Clone, Debug)]
pub enum RLayer {
    Linear(AffMap),
    Relu(usize),
    Leaky(usize, Q),
    HardTanh(usize, Q, Q),
    HardSigmoid(usize),
    HardShrink(usize, Q),
    Threshold(usize, Q, Q),
    Argmax,
    ClassChar(usize),
    /// 1 iff all components within optional [min, max]
    InfNorm(Option<Q>, Option<Q>),
}

/// closed polytope rows a.x <= b
pub type Rows = Vec<(Vec<Q>, Q)>;

#[derive(Clone, Debug)]
pub struct RefNet {
    pub n: usize,
    /// precondition: defined exactly on the closed polytope, mapping through the given function
    pub pre: Option<(Rows, AffMap)>,
    pub layers: Vec<RLayer>,
}

fn const_row(n: usize, v: Q) -> (Vec<Q>, Q) {
    (vec![Q::ZERO; n], v)
}

impl RefNet {
    pub fn new(n: usize, layers: Vec<RLayer>) -> RefNet {
        RefNet { n, pre: None, layers }
    }
}

/// sign of a form at x, and record it as a guard
fn sgn(f: &Form, x: &[Q], guards: &mut Vec<Form>) -> i8 {
    guards.push(f.clone());
    f.eval(x).sign()
}

pub fn apply_layer(l: &RLayer, cur: AffMap, n: usize, x: &[Q], guards: &mut Vec<Form>) -> Result<AffMap, String> {
    let mut cur = cur;
    match l {
        RLayer::Linear(a) => {
            if a.indim() != cur.outdim() && !(a.m.is_empty()) {
                return Err(format!("reference: linear layer expects {} inputs, got {}", a.indim(), cur.outdim()));
            }
            Ok(a.after(&cur, n))
        }
        RLayer::Relu(i) => {
            let f = cur.row(*i);
            if sgn(&f, x, guards) <= 0 {
                cur.m[*i] = vec![Q::ZERO; n];
                cur.c[*i] = Q::ZERO;
            }
            Ok(cur)
        }
        RLayer::Leaky(i, alpha) => {
            let f = cur.row(*i);
            if sgn(&f, x, guards) <= 0 {
                cur.m[*i] = cur.m[*i].iter().map(|v| v * alpha).collect();
                cur.c[*i] = &cur.c[*i] * alpha;
            }
            Ok(cur)
        }
        RLayer::HardTanh(i, lo, hi) => {
            let f = cur.row(*i);
            let fhi = Form::new(f.a.clone(), &f.c - hi);
            if sgn(&fhi, x, guards) >= 0 {
                let (a, c) = const_row(n, hi.clone());
                cur.m[*i] = a;
                cur.c[*i] = c;
                return Ok(cur);
            }
            let flo = Form::new(f.a.clone(), &f.c - lo);
            if sgn(&flo, x, guards) <= 0 {
                let (a, c) = const_row(n, lo.clone());
                cur.m[*i] = a;
                cur.c[*i] = c;
            }
            Ok(cur)
        }
        RLayer::HardSigmoid(i) => {
            let f = cur.row(*i);
            let fhi = Form::new(f.a.clone(), &f.c - &Q::int(3));
            if sgn(&fhi, x, guards) >= 0 {
                let (a, c) = const_row(n, Q::ONE);
                cur.m[*i] = a;
                cur.c[*i] = c;
                return Ok(cur);
            }
            let flo = Form::new(f.a.clone(), &f.c + &Q::int(3));
            if sgn(&flo, x, guards) <= 0 {
                let (a, c) = const_row(n, Q::ZERO);
                cur.m[*i] = a;
                cur.c[*i] = c;
                return Ok(cur);
            }
            let sixth = Q::frac(1, 6);
            cur.m[*i] = cur.m[*i].iter().map(|v| v * &sixth).collect();
            cur.c[*i] = &(&cur.c[*i] * &sixth) + &Q::frac(1, 2);
            Ok(cur)
        }
        RLayer::HardShrink(i, lam) => {
            // x if |x| > lambda else 0
            let f = cur.row(*i);
            let fhi = Form::new(f.a.clone(), &f.c - lam);
            if sgn(&fhi, x, guards) > 0 {
                return Ok(cur);
            }
            let flo = Form::new(f.a.clone(), &f.c + lam);
            if sgn(&flo, x, guards) < 0 {
                return Ok(cur);
            }
            cur.m[*i] = vec![Q::ZERO; n];
            cur.c[*i] = Q::ZERO;
            Ok(cur)
        }
        RLayer::Threshold(i, th, val) => {
            // x if x > threshold else value
            let f = cur.row(*i);
            let ft = Form::new(f.a.clone(), &f.c - th);
            if sgn(&ft, x, guards) <= 0 {
                let (a, c) = const_row(n, val.clone());
                cur.m[*i] = a;
                cur.c[*i] = c;
            }
            Ok(cur)
        }
        RLayer::Argmax => {
            let y = cur.apply(x);
            if y.is_empty() {
                return Err("argmax of empty vector".into());
            }
            let mut k = 0;
            for j in 1..y.len() {
                if y[j] > y[k] {
                    k = j;
                }
            }
            // first index of a maximal component; record every comparison that fixes it
            for j in 0..y.len() {
                if j != k {
                    let d = cur.row(j).sub(&cur.row(k));
                    sgn(&d, x, guards);
                }
            }
            Ok(AffMap { m: vec![vec![Q::ZERO; n]], c: vec![Q::int(k as i64)] })
        }
        RLayer::ClassChar(c) => {
            let mut is_max = true;
            for j in 0..cur.outdim() {
                if j != *c {
                    let d = cur.row(j).sub(&cur.row(*c));
                    if sgn(&d, x, guards) > 0 {
                        is_max = false;
                        break;
                    }
                }
            }
            Ok(AffMap { m: vec![vec![Q::ZERO; n]], c: vec![if is_max { Q::ONE } else { Q::ZERO }] })
        }
        RLayer::InfNorm(lo, hi) => {
            let mut inside = true;
            'o: for j in 0..cur.outdim() {
                let f = cur.row(j);
                if let Some(lo) = lo {
                    if sgn(&Form::new(f.a.clone(), &f.c - lo), x, guards) < 0 {
                        inside = false;
                        break 'o;
                    }
                }
                if let Some(hi) = hi {
                    if sgn(&Form::new(f.a.clone(), &f.c - hi), x, guards) > 0 {
                        inside = false;
                        break 'o;
                    }
                }
            }
            Ok(AffMap { m: vec![vec![Q::ZERO; n]], c: vec![if inside { Q::ONE } else { Q::ZERO }] })
        }
    }
}

impl Side for RefNet {
    fn eval(&self, x: &[Q], guards: &mut Vec<Form>) -> Result<Option<AffMap>, String> {
        let n = self.n;
        let mut cur = AffMap::identity(n);
        if let Some((rows, f)) = &self.pre {
            for (a, b) in rows {
                let g = Form::new(a.clone(), -b.clone());
                guards.push(g);
                if &dot(a, x) > b {
                    return Ok(None);
                }
            }
            cur = f.clone();
        }
        for l in &self.layers {
            cur = apply_layer(l, cur, n, x, guards)?;
        }
        Ok(Some(cur))
    }
}
