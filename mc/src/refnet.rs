pub struct Dummy;
