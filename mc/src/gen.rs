//! Program enumerators (DESIGN 3.5): tree specifications over explicit alphabets,
//! built into real `AffTree`s with the public constructors.

use crate::q::Q;
use crate::regions::AffMap;
use affinitree::linalg::affine::AffFunc;
use affinitree::pwl::afftree::AffTree;
use ndarray::{Array1, Array2};
use serde_json::{json, Value};

/// affine function with dyadic entries, kept both as f64 (to build) and readable
#[derive(Clone, Debug, PartialEq)]
pub struct Aff {
    pub mat: Vec<Vec<f64>>,
    pub bias: Vec<f64>,
    pub indim: usize,
}

impl Aff {
    pub fn new(mat: Vec<Vec<f64>>, bias: Vec<f64>) -> Aff {
        let indim = mat.first().map(|r| r.len()).unwrap_or(0);
        assert_eq!(mat.len(), bias.len());
        Aff { mat, bias, indim }
    }
    pub fn with_indim(mat: Vec<Vec<f64>>, bias: Vec<f64>, indim: usize) -> Aff {
        Aff { mat, bias, indim }
    }
    pub fn row1(a: &[f64], b: f64) -> Aff {
        Aff::new(vec![a.to_vec()], vec![b])
    }
    pub fn identity(n: usize) -> Aff {
        let mut m = vec![vec![0.0; n]; n];
        for i in 0..n {
            m[i][i] = 1.0;
        }
        Aff::new(m, vec![0.0; n])
    }
    pub fn outdim(&self) -> usize {
        self.mat.len()
    }
    pub fn to_real(&self) -> AffFunc {
        let r = self.mat.len();
        let c = self.indim;
        let mut m = Array2::<f64>::zeros((r, c));
        for i in 0..r {
            for j in 0..c {
                m[[i, j]] = self.mat[i][j];
            }
        }
        AffFunc::from_mats(m, Array1::from(self.bias.clone()))
    }
    /// storage order chosen by the entries (deterministic; used where a check has no layout dimension of its own):
    /// column-major iff the matrix is at least 2x2 and a weighted sum of its entries is odd
    pub fn to_real_auto(&self) -> AffFunc {
        let r = self.mat.len();
        let c = self.indim;
        let mut h = 0i64;
        for i in 0..r {
            for j in 0..c {
                h += ((i + 2 * j + 1) as i64) * ((self.mat[i][j] * 4.0) as i64);
            }
        }
        if r >= 2 && c >= 2 && h.rem_euclid(2) == 1 {
            self.to_real_f()
        } else {
            self.to_real()
        }
    }
    /// same function, matrix stored column-major (as produced by `.t().to_owned()` or Fortran-ordered npy data)
    pub fn to_real_f(&self) -> AffFunc {
        use ndarray::ShapeBuilder;
        let r = self.mat.len();
        let c = self.indim;
        let mut m = Array2::<f64>::zeros((r, c).f());
        for i in 0..r {
            for j in 0..c {
                m[[i, j]] = self.mat[i][j];
            }
        }
        AffFunc::from_mats(m, Array1::from(self.bias.clone()))
    }
    pub fn to_map(&self) -> AffMap {
        AffMap {
            m: self.mat.iter().map(|r| r.iter().map(|x| Q::from_f64(*x)).collect()).collect(),
            c: self.bias.iter().map(|x| Q::from_f64(*x)).collect(),
        }
    }
    pub fn to_json(&self) -> Value {
        json!({"mat": self.mat, "bias": self.bias})
    }
    pub fn from_real(a: &AffFunc) -> Aff {
        Aff {
            mat: a.mat.outer_iter().map(|r| r.to_vec()).collect(),
            bias: a.bias.to_vec(),
            indim: a.mat.shape()[1],
        }
    }
}

/// tree specification: terminal or decision with K child slots
#[derive(Clone, Debug, PartialEq)]
pub enum TSpec {
    Leaf(Aff),
    Dec(Aff, Vec<Option<TSpec>>),
}

impl TSpec {
    pub fn n_nodes(&self) -> usize {
        match self {
            TSpec::Leaf(_) => 1,
            TSpec::Dec(_, ch) => 1 + ch.iter().flatten().map(|c| c.n_nodes()).sum::<usize>(),
        }
    }
    pub fn depth(&self) -> usize {
        match self {
            TSpec::Leaf(_) => 0,
            TSpec::Dec(_, ch) => 1 + ch.iter().flatten().map(|c| c.depth()).max().unwrap_or(0),
        }
    }
    pub fn is_total(&self) -> bool {
        match self {
            TSpec::Leaf(_) => true,
            TSpec::Dec(_, ch) => ch.iter().all(|c| c.as_ref().map(|t| t.is_total()).unwrap_or(false)),
        }
    }
    pub fn aff(&self) -> &Aff {
        match self {
            TSpec::Leaf(a) => a,
            TSpec::Dec(a, _) => a,
        }
    }
    pub fn out_dim(&self) -> Option<usize> {
        match self {
            TSpec::Leaf(a) => Some(a.outdim()),
            TSpec::Dec(_, ch) => ch.iter().flatten().filter_map(|c| c.out_dim()).next(),
        }
    }
    pub fn to_json(&self) -> Value {
        match self {
            TSpec::Leaf(a) => json!({"terminal": a.to_json()}),
            TSpec::Dec(a, ch) => json!({
                "decision": a.to_json(),
                "children": ch.iter().map(|c| c.as_ref().map(|t| t.to_json())).collect::<Vec<_>>()
            }),
        }
    }
    /// Build the real tree; nodes are inserted in depth-first pre-order.
    pub fn build<const K: usize>(&self) -> AffTree<K> {
        let mut t = AffTree::<K>::from_aff(self.aff().to_real());
        fn rec<const K: usize>(t: &mut AffTree<K>, idx: usize, s: &TSpec) {
            if let TSpec::Dec(_, ch) = s {
                assert!(ch.len() <= K);
                for (l, c) in ch.iter().enumerate() {
                    if let Some(c) = c {
                        let ci = t.add_child_node(idx, l, c.aff().to_real()).unwrap();
                        rec(t, ci, c);
                    }
                }
            }
        }
        rec(&mut t, 0, self);
        t
    }
    /// Build with breadth-first insertion order (different arena layout).
    pub fn build_bfs<const K: usize>(&self) -> AffTree<K> {
        let mut t = AffTree::<K>::from_aff(self.aff().to_real());
        let mut queue: std::collections::VecDeque<(usize, &TSpec)> = std::collections::VecDeque::new();
        queue.push_back((0, self));
        while let Some((idx, s)) = queue.pop_front() {
            if let TSpec::Dec(_, ch) = s {
                for (l, c) in ch.iter().enumerate() {
                    if let Some(c) = c {
                        let ci = t.add_child_node(idx, l, c.aff().to_real()).unwrap();
                        queue.push_back((ci, c));
                    }
                }
            }
        }
        t
    }
    /// Build with every matrix stored column-major (depth-first insertion order).
    pub fn build_fortran<const K: usize>(&self) -> AffTree<K> {
        let mut t = AffTree::<K>::from_aff(self.aff().to_real_f());
        fn rec<const K: usize>(t: &mut AffTree<K>, idx: usize, s: &TSpec) {
            if let TSpec::Dec(_, ch) = s {
                for (l, c) in ch.iter().enumerate() {
                    if let Some(c) = c {
                        let ci = t.add_child_node(idx, l, c.aff().to_real_f()).unwrap();
                        rec(t, ci, c);
                    }
                }
            }
        }
        rec(&mut t, 0, self);
        t
    }
    /// Build level by level and, within a level, label by label with the highest label first: siblings are not
    /// neighbours in the arena, and a child on a higher label has a smaller index than its sibling on a lower one.
    pub fn build_interleaved<const K: usize>(&self) -> AffTree<K> {
        let mut t = AffTree::<K>::from_aff(self.aff().to_real());
        let mut level: Vec<(usize, &TSpec)> = vec![(0, self)];
        while !level.is_empty() {
            let mut next = vec![];
            for l in (0..K).rev() {
                for (idx, s) in &level {
                    if let TSpec::Dec(_, ch) = s {
                        if let Some(Some(c)) = ch.get(l) {
                            let ci = t.add_child_node(*idx, l, c.aff().to_real()).unwrap();
                            next.push((ci, c));
                        }
                    }
                }
            }
            level = next;
        }
        t
    }
    /// layout selector shared by the property modules: 0 depth-first, 1 breadth-first, 2 re-used indices,
    /// 3 column-major, 4 interleaved siblings
    pub const LAYOUTS: usize = 5;
    pub fn build_layout<const K: usize>(&self, layout: u8) -> AffTree<K> {
        match layout % 5 {
            0 => self.build::<K>(),
            1 => self.build_bfs::<K>(),
            2 => self.build_scrambled::<K>(),
            3 => self.build_fortran::<K>(),
            _ => self.build_interleaved::<K>(),
        }
    }
    /// Build over a raw arena whose root was replaced with `Tree::add_root`: a former tree (a decision with the
    /// spec's first predicate-or-terminal row shape and one terminal that differs from every terminal of the spec by
    /// a shifted bias, or a lone shifted terminal) stays behind at the indices 0.. unreachable, the real root sits at a
    /// later index. `variant` 0: the former tree is one terminal; 1: the former tree is a decision with one terminal
    /// child (only when the spec is a decision).
    pub fn build_rerooted<const K: usize>(&self, variant: u8) -> AffTree<K> {
        use affinitree::pwl::node::AffContent;
        use affinitree::tree::graph::Tree;
        fn first_leaf(s: &TSpec) -> &Aff {
            match s {
                TSpec::Leaf(a) => a,
                TSpec::Dec(_, ch) => first_leaf(ch.iter().flatten().next().expect("decision with a child")),
            }
        }
        let in_dim = self.aff().indim;
        let mut decoy = first_leaf(self).clone();
        for b in decoy.bias.iter_mut() {
            *b += 1.0;
        }
        let mut raw: Tree<AffContent, K> = match (self, variant % 2) {
            (TSpec::Dec(p, _), 1) => {
                let mut raw = Tree::<AffContent, K>::with_root(AffContent::new(p.to_real()), 8);
                raw.add_child_node(0, K - 1, AffContent::new(decoy.to_real())).unwrap();
                raw
            }
            _ => Tree::<AffContent, K>::with_root(AffContent::new(decoy.to_real()), 8),
        };
        let root = raw.add_root(AffContent::new(self.aff().to_real()));
        assert_ne!(root, 0);
        fn rec<const K: usize>(t: &mut affinitree::tree::graph::Tree<affinitree::pwl::node::AffContent, K>, idx: usize, s: &TSpec) {
            if let TSpec::Dec(_, ch) = s {
                for (l, c) in ch.iter().enumerate() {
                    if let Some(c) = c {
                        let ci = t.add_child_node(idx, l, affinitree::pwl::node::AffContent::new(c.aff().to_real())).unwrap();
                        rec(t, ci, c);
                    }
                }
            }
        }
        rec(&mut raw, root, self);
        AffTree::<K>::from_tree(raw, in_dim)
    }
    /// Build through a history: a decoy subtree is inserted first and removed again so that
    /// arena indices are non-contiguous and re-used.
    pub fn build_scrambled<const K: usize>(&self) -> AffTree<K> {
        let mut t = AffTree::<K>::from_aff(self.aff().to_real());
        if let TSpec::Dec(_, ch) = self {
            // A decoy chain 1 -> 2 -> .. -> m below the label of the first present child is inserted and then
            // dissolved from the top (node 1 first, node m last). The slab hands freed slots out last-in-first-out,
            // so the real nodes receive the indices m, m-1, .., 1: every node is stored *before* its parent.
            if let Some(l) = ch.iter().position(|c| c.is_some()) {
                let m = self.n_nodes().saturating_sub(1).max(2);
                let mut chain = vec![];
                let mut at = 0usize;
                for i in 0..m {
                    let lab = if i == 0 { l } else { (i % K).min(K - 1) };
                    at = t.add_child_node(at, lab, self.aff().to_real()).unwrap();
                    chain.push((at, lab));
                }
                for w in 0..m - 1 {
                    // skip chain[w] (it has exactly one child, on the label of chain[w + 1])
                    t.tree.merge_child_with_parent(chain[w].0, chain[w + 1].1).unwrap();
                }
                t.tree.remove_child(0, l);
            }
        }
        fn rec<const K: usize>(t: &mut AffTree<K>, idx: usize, s: &TSpec) {
            if let TSpec::Dec(_, ch) = s {
                // insert children in descending label order
                for (l, c) in ch.iter().enumerate().rev() {
                    if let Some(c) = c {
                        let ci = t.add_child_node(idx, l, c.aff().to_real()).unwrap();
                        rec(t, ci, c);
                    }
                }
            }
        }
        rec(&mut t, 0, self);
        t
    }
}

#[derive(Clone, Debug)]
pub struct TreeGen {
    pub k: usize,
    pub preds: Vec<Aff>,
    pub terms: Vec<Aff>,
    pub max_depth: usize,
    pub max_nodes: usize,
    pub partial: bool,
}

impl TreeGen {
    /// all trees within the bounds, simplest (fewest nodes) first
    pub fn all(&self) -> Vec<TSpec> {
        let mut memo: std::collections::HashMap<(usize, usize), std::rc::Rc<Vec<TSpec>>> = Default::default();
        let mut out: Vec<TSpec> = self.rec(self.max_depth, self.max_nodes, &mut memo).as_ref().clone();
        out.sort_by_key(|t| t.n_nodes());
        out
    }

    /// trees of depth <= depth with at most `budget` nodes
    fn rec(
        &self,
        depth: usize,
        budget: usize,
        memo: &mut std::collections::HashMap<(usize, usize), std::rc::Rc<Vec<TSpec>>>,
    ) -> std::rc::Rc<Vec<TSpec>> {
        if let Some(v) = memo.get(&(depth, budget)) {
            return v.clone();
        }
        let mut out = vec![];
        if budget >= 1 {
            for t in &self.terms {
                out.push(TSpec::Leaf(t.clone()));
            }
            if depth >= 1 && budget >= 2 {
                let combos = self.slots(self.k, depth - 1, budget - 1, memo);
                for p in &self.preds {
                    for c in &combos {
                        if c.iter().all(|x| x.is_none()) {
                            continue;
                        }
                        if !self.partial && c.iter().any(|x| x.is_none()) {
                            continue;
                        }
                        out.push(TSpec::Dec(p.clone(), c.clone()));
                    }
                }
            }
        }
        let rc = std::rc::Rc::new(out);
        memo.insert((depth, budget), rc.clone());
        rc
    }

    fn slots(
        &self,
        k: usize,
        depth: usize,
        budget: usize,
        memo: &mut std::collections::HashMap<(usize, usize), std::rc::Rc<Vec<TSpec>>>,
    ) -> Vec<Vec<Option<TSpec>>> {
        if k == 0 {
            return vec![vec![]];
        }
        let mut out = vec![];
        for r in self.slots(k - 1, depth, budget, memo) {
            let mut v = vec![None];
            v.extend(r.into_iter());
            out.push(v);
        }
        let subs = self.rec(depth, budget, memo);
        // group by size so that the remainder is computed once per size
        let mut by_size: std::collections::BTreeMap<usize, Vec<&TSpec>> = Default::default();
        for s in subs.iter() {
            by_size.entry(s.n_nodes()).or_default().push(s);
        }
        for (used, group) in by_size {
            if used > budget {
                continue;
            }
            let rest = self.slots(k - 1, depth, budget - used, memo);
            for s in group {
                for r in &rest {
                    let mut v = vec![Some(s.clone())];
                    v.extend(r.iter().cloned());
                    out.push(v);
                }
            }
        }
        out
    }
}

pub fn rows(v: &[&[f64]]) -> Vec<Vec<f64>> {
    v.iter().map(|r| r.to_vec()).collect()
}
