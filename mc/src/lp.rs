//! Exact rational linear programming (two-phase primal simplex, Bland's rule).
//!
//! Part of the *explorer*: it decides which faces / regions are non-empty
//! (which "transitions are enabled") and provides the exact oracle values for
//! the LP-layer properties.  Variables are free; rows are `a.x <= b` or `a.x = b`.

use crate::q::{dot, Q};
use std::sync::atomic::{AtomicU64, Ordering};

pub static LP_CALLS: AtomicU64 = AtomicU64::new(0);

#[derive(Clone, Copy, Debug, PartialEq, Eq)]
pub enum Rel {
    Le,
    Eq,
}

#[derive(Clone, Debug)]
pub struct Row {
    pub a: Vec<Q>,
    pub b: Q,
    pub rel: Rel,
}

impl Row {
    pub fn le(a: Vec<Q>, b: Q) -> Row {
        Row { a, b, rel: Rel::Le }
    }
    pub fn eq(a: Vec<Q>, b: Q) -> Row {
        Row { a, b, rel: Rel::Eq }
    }
    pub fn holds(&self, x: &[Q]) -> bool {
        let v = dot(&self.a, x);
        match self.rel {
            Rel::Le => v <= self.b,
            Rel::Eq => v == self.b,
        }
    }
}

#[derive(Clone, Debug, PartialEq)]
pub enum LpResult {
    Infeasible,
    Unbounded,
    Optimal(Vec<Q>, Q),
}

struct Tableau {
    t: Vec<Vec<Q>>, // m rows x ncols
    rhs: Vec<Q>,
    basis: Vec<usize>,
    ncols: usize,
}

impl Tableau {
    fn pivot(&mut self, r: usize, c: usize, obj: &mut [Q], objval: &mut Q) {
        let p = self.t[r][c].clone();
        debug_assert!(!p.is_zero());
        let inv = p.recip();
        for j in 0..self.ncols {
            if !self.t[r][j].is_zero() {
                self.t[r][j] = &self.t[r][j] * &inv;
            }
        }
        self.rhs[r] = &self.rhs[r] * &inv;
        let prow = self.t[r].clone();
        let prhs = self.rhs[r].clone();
        for i in 0..self.t.len() {
            if i == r {
                continue;
            }
            let f = self.t[i][c].clone();
            if f.is_zero() {
                continue;
            }
            for j in 0..self.ncols {
                if !prow[j].is_zero() {
                    self.t[i][j] = &self.t[i][j] - &(&f * &prow[j]);
                }
            }
            self.rhs[i] = &self.rhs[i] - &(&f * &prhs);
        }
        let f = obj[c].clone();
        if !f.is_zero() {
            for j in 0..self.ncols {
                if !prow[j].is_zero() {
                    obj[j] = &obj[j] - &(&f * &prow[j]);
                }
            }
            // objective increases by f * (new value of entering var)
            *objval = &*objval + &(&f * &prhs);
        }
        self.basis[r] = c;
    }

    /// maximise; `allowed[j]` = column may enter. Returns false if unbounded.
    fn run(&mut self, obj: &mut [Q], objval: &mut Q, allowed: &[bool]) -> bool {
        loop {
            // Bland: smallest index with positive reduced gain
            let mut enter = None;
            for j in 0..self.ncols {
                if allowed[j] && obj[j].is_pos() {
                    enter = Some(j);
                    break;
                }
            }
            let c = match enter {
                None => return true,
                Some(c) => c,
            };
            let mut leave: Option<(usize, Q)> = None;
            for i in 0..self.t.len() {
                if self.t[i][c].is_pos() {
                    let ratio = &self.rhs[i] / &self.t[i][c];
                    match &leave {
                        None => leave = Some((i, ratio)),
                        Some((li, lr)) => {
                            if ratio < *lr || (ratio == *lr && self.basis[i] < self.basis[*li]) {
                                leave = Some((i, ratio));
                            }
                        }
                    }
                }
            }
            match leave {
                None => return false,
                Some((r, _)) => self.pivot(r, c, obj, objval),
            }
        }
    }
}

/// maximise c.x subject to rows, x free in R^n.
pub fn maximize(n: usize, rows: &[Row], c: &[Q]) -> LpResult {
    LP_CALLS.fetch_add(1, Ordering::Relaxed);
    assert_eq!(c.len(), n);
    let m = rows.len();
    // columns: u (n), v (n), slack (one per Le row), artificial (as needed)
    let n_slack = rows.iter().filter(|r| r.rel == Rel::Le).count();
    let mut ncols = 2 * n + n_slack;
    let mut t: Vec<Vec<Q>> = Vec::with_capacity(m);
    let mut rhs: Vec<Q> = Vec::with_capacity(m);
    let mut basis: Vec<usize> = vec![usize::MAX; m];
    let mut need_art: Vec<usize> = Vec::new();
    let mut sidx = 0;
    for (i, r) in rows.iter().enumerate() {
        assert_eq!(r.a.len(), n);
        let neg = r.b.is_neg();
        let mut row = vec![Q::ZERO; ncols];
        for j in 0..n {
            let v = if neg { -r.a[j].clone() } else { r.a[j].clone() };
            row[j] = v.clone();
            row[n + j] = -v;
        }
        match r.rel {
            Rel::Le => {
                let col = 2 * n + sidx;
                sidx += 1;
                if neg {
                    row[col] = Q::int(-1);
                    need_art.push(i);
                } else {
                    row[col] = Q::ONE;
                    basis[i] = col;
                }
            }
            Rel::Eq => need_art.push(i),
        }
        t.push(row);
        rhs.push(if neg { -r.b.clone() } else { r.b.clone() });
    }
    let art_start = ncols;
    ncols += need_art.len();
    for row in t.iter_mut() {
        row.resize(ncols, Q::ZERO);
    }
    for (k, &i) in need_art.iter().enumerate() {
        t[i][art_start + k] = Q::ONE;
        basis[i] = art_start + k;
    }
    let mut tab = Tableau { t, rhs, basis, ncols };

    // ---- phase 1: maximise -(sum of artificials)
    if !need_art.is_empty() {
        let mut obj = vec![Q::ZERO; ncols];
        let mut val = Q::ZERO;
        // objective -sum art; express in non-basic terms: add rows of artificial basics
        for &i in &need_art {
            for j in 0..ncols {
                if j < art_start && !tab.t[i][j].is_zero() {
                    obj[j] = &obj[j] + &tab.t[i][j];
                }
            }
            val = &val - &tab.rhs[i];
        }
        let allowed = vec![true; ncols];
        let ok = tab.run(&mut obj, &mut val, &allowed);
        debug_assert!(ok, "phase 1 cannot be unbounded");
        if val.is_neg() {
            return LpResult::Infeasible;
        }
        // drive artificials out of the basis
        let mut i = 0;
        while i < tab.t.len() {
            if tab.basis[i] >= art_start {
                debug_assert!(tab.rhs[i].is_zero());
                let mut piv = None;
                for j in 0..art_start {
                    if !tab.t[i][j].is_zero() {
                        piv = Some(j);
                        break;
                    }
                }
                match piv {
                    Some(j) => {
                        let mut dummy = vec![Q::ZERO; ncols];
                        let mut dv = Q::ZERO;
                        tab.pivot(i, j, &mut dummy, &mut dv);
                        i += 1;
                    }
                    None => {
                        // redundant row
                        tab.t.remove(i);
                        tab.rhs.remove(i);
                        tab.basis.remove(i);
                    }
                }
            } else {
                i += 1;
            }
        }
    }

    // ---- phase 2
    let mut obj = vec![Q::ZERO; ncols];
    for j in 0..n {
        obj[j] = c[j].clone();
        obj[n + j] = -c[j].clone();
    }
    let mut val = Q::ZERO;
    // eliminate basic columns from the objective row
    for i in 0..tab.t.len() {
        let b = tab.basis[i];
        let f = obj[b].clone();
        if !f.is_zero() {
            for j in 0..ncols {
                if !tab.t[i][j].is_zero() {
                    obj[j] = &obj[j] - &(&f * &tab.t[i][j]);
                }
            }
            val = &val + &(&f * &tab.rhs[i]);
        }
    }
    let mut allowed = vec![true; ncols];
    for j in art_start..ncols {
        allowed[j] = false;
    }
    if !tab.run(&mut obj, &mut val, &allowed) {
        return LpResult::Unbounded;
    }
    let mut full = vec![Q::ZERO; ncols];
    for i in 0..tab.t.len() {
        full[tab.basis[i]] = tab.rhs[i].clone();
    }
    let x: Vec<Q> = (0..n).map(|j| &full[j] - &full[n + j]).collect();
    // certificate: primal feasibility and objective value, checked exactly
    for r in rows {
        assert!(r.holds(&x), "exact LP produced an infeasible point (machinery bug)");
    }
    assert_eq!(dot(c, &x), val, "exact LP objective mismatch (machinery bug)");
    LpResult::Optimal(x, val)
}

/// Is { x | le rows, eq rows, strict rows a.x < b } non-empty?  Returns a point.
pub fn strict_feasible(n: usize, le: &[Row], strict: &[(Vec<Q>, Q)]) -> Option<Vec<Q>> {
    if strict.is_empty() {
        return match maximize(n, le, &vec![Q::ZERO; n]) {
            LpResult::Optimal(x, _) => Some(x),
            LpResult::Unbounded => unreachable!(),
            LpResult::Infeasible => None,
        };
    }
    let mut rows: Vec<Row> = Vec::with_capacity(le.len() + strict.len() + 1);
    for r in le {
        let mut a = r.a.clone();
        a.push(Q::ZERO);
        rows.push(Row { a, b: r.b.clone(), rel: r.rel });
    }
    for (a, b) in strict {
        let mut a = a.clone();
        a.push(Q::ONE);
        rows.push(Row::le(a, b.clone()));
    }
    let mut a = vec![Q::ZERO; n + 1];
    a[n] = Q::ONE;
    rows.push(Row::le(a.clone(), Q::ONE));
    match maximize(n + 1, &rows, &a) {
        LpResult::Optimal(x, v) => {
            if v.is_pos() {
                Some(x[..n].to_vec())
            } else {
                None
            }
        }
        LpResult::Unbounded => unreachable!("t <= 1"),
        LpResult::Infeasible => None,
    }
}

#[derive(Clone, Copy, Debug, PartialEq, Eq)]
pub enum Thickness {
    Fat,
    Thin,
    RobustEmpty,
}

/// Classification of the closed polytope { a_i.x <= b_i } (DESIGN G1).
/// t* = max t such that a_i.x + t*s_i <= b_i for all i, s_i = max(1, |a_i|_1).
pub fn thickness(n: usize, rows: &[(Vec<Q>, Q)], delta: &Q) -> Thickness {
    // a zero row 0 <= b holds for every x (b >= 0) or for none (b < 0): it says nothing about margins in x
    let mut worst_zero: Option<Q> = None;
    let rows: Vec<&(Vec<Q>, Q)> = rows
        .iter()
        .filter(|(a, b)| {
            if a.iter().all(|v| v.is_zero()) {
                if b.is_neg() && worst_zero.as_ref().map(|w| b < w).unwrap_or(true) {
                    worst_zero = Some(b.clone());
                }
                false
            } else {
                true
            }
        })
        .collect();
    if let Some(w) = worst_zero {
        return if w < -delta.clone() { Thickness::RobustEmpty } else { Thickness::Thin };
    }
    if rows.is_empty() {
        return Thickness::Fat;
    }
    let mut lp: Vec<Row> = Vec::with_capacity(rows.len());
    for (a, b) in rows {
        let mut s = Q::ZERO;
        for v in a {
            s = s + v.abs();
        }
        if s < Q::ONE {
            s = Q::ONE;
        }
        let mut a2 = a.clone();
        a2.push(s);
        lp.push(Row::le(a2, b.clone()));
    }
    let mut c = vec![Q::ZERO; n + 1];
    c[n] = Q::ONE;
    match maximize(n + 1, &lp, &c) {
        LpResult::Unbounded => Thickness::Fat,
        LpResult::Infeasible => unreachable!("t -> -inf is always feasible"),
        LpResult::Optimal(_, t) => {
            if t >= *delta {
                Thickness::Fat
            } else if t < -delta.clone() {
                Thickness::RobustEmpty
            } else {
                Thickness::Thin
            }
        }
    }
}

/// Brute force reference used by the self test: feasibility of {a.x <= b} by
/// Fourier-Motzkin elimination.
pub fn fm_feasible(n: usize, rows: &[(Vec<Q>, Q)]) -> bool {
    let mut rows: Vec<(Vec<Q>, Q)> = rows.to_vec();
    for k in (0..n).rev() {
        let mut pos = vec![];
        let mut neg = vec![];
        let mut zero = vec![];
        for (a, b) in rows.into_iter() {
            let s = a[k].sign();
            if s > 0 {
                pos.push((a, b));
            } else if s < 0 {
                neg.push((a, b));
            } else {
                zero.push((a, b));
            }
        }
        for (pa, pb) in &pos {
            for (na, nb) in &neg {
                // pa/pk x.. <= ; combine: na_k<0. (pa * -na_k + na * pa_k)
                let f1 = -na[k].clone();
                let f2 = pa[k].clone();
                let a: Vec<Q> = (0..n).map(|j| &(&pa[j] * &f1) + &(&na[j] * &f2)).collect();
                let b = &(pb * &f1) + &(nb * &f2);
                zero.push((a, b));
            }
        }
        rows = zero;
    }
    rows.iter().all(|(_, b)| !b.is_neg())
}

#[cfg(test)]
mod tests {
    use super::*;
    use crate::q::q;
    #[test]
    fn simple() {
        // max x+y s.t. x<=1, y<=2, x+y<=2.5
        let rows = vec![
            Row::le(vec![q(1), q(0)], q(1)),
            Row::le(vec![q(0), q(1)], q(2)),
            Row::le(vec![q(1), q(1)], Q::frac(5, 2)),
        ];
        match maximize(2, &rows, &[q(1), q(1)]) {
            LpResult::Optimal(_, v) => assert_eq!(v, Q::frac(5, 2)),
            o => panic!("{:?}", o),
        }
        assert_eq!(maximize(2, &rows, &[q(-1), q(0)]), LpResult::Unbounded);
        let rows2 = vec![Row::le(vec![q(1)], q(0)), Row::le(vec![q(-1)], q(-1))];
        assert_eq!(maximize(1, &rows2, &[q(0)]), LpResult::Infeasible);
        let rows3 = vec![Row::le(vec![q(1)], q(0)), Row::le(vec![q(-1)], q(0))];
        assert!(strict_feasible(1, &rows3, &[]).is_some());
        assert!(strict_feasible(1, &[], &[(vec![q(1)], q(0)), (vec![q(-1)], q(0))]).is_none());
        assert!(strict_feasible(1, &[Row::eq(vec![q(1)], q(3))], &[(vec![q(1)], q(4))]).is_some());
    }
}
