//! Operation alphabet for history-style explorations on `AffTree<2>` (C03-C06, C11).

use crate::gen::{Aff, TSpec};
use crate::report::catch;
use affinitree::distill::schema;
use affinitree::linalg::affine::Polytope;
use affinitree::pwl::afftree::AffTree;
use ndarray::{Array1, Array2};
use serde_json::{json, Value};

/// right operands of compose; the dimension is the current output dimension of the tree
#[derive(Clone, Debug, PartialEq)]
pub enum GSpec {
    Relu(usize),
    Leaky(usize, f64),
    HardTanh(usize),
    HardShrink(usize, f64),
    Threshold(usize, f64, f64),
    Argmax,
    ClassChar(usize),
    /// from_poly over the current output space, identity on the polytope
    FromPoly(Vec<(Vec<f64>, f64)>, bool),
    User(TSpec),
    /// the same tree over an arena whose root was replaced with `Tree::add_root` (root not at node 0, a former tree
    /// left behind unreachable); not part of the operation alphabets, used by fixed families only
    Rerooted(TSpec),
    /// the operand after its own infeasible_elimination (it carries cached feasibility states)
    Eliminated(Box<GSpec>),
}

pub fn polytope(rows: &[(Vec<f64>, f64)]) -> Polytope {
    let n = rows[0].0.len();
    let mut m = Array2::<f64>::zeros((rows.len(), n));
    let mut b = Array1::<f64>::zeros(rows.len());
    for (i, (a, bb)) in rows.iter().enumerate() {
        for j in 0..n {
            m[[i, j]] = a[j];
        }
        b[i] = *bb;
    }
    Polytope::from_mats(m, b)
}

impl GSpec {
    /// input dimension this operand requires (None: any >= needed index)
    pub fn fits(&self, d: usize) -> bool {
        match self {
            GSpec::Relu(i) | GSpec::Leaky(i, _) | GSpec::HardTanh(i) | GSpec::HardShrink(i, _) | GSpec::Threshold(i, _, _) => *i < d,
            GSpec::Argmax => d >= 2,
            GSpec::ClassChar(c) => d >= 2 && *c < d,
            GSpec::FromPoly(rows, _) => rows[0].0.len() == d,
            GSpec::User(t) | GSpec::Rerooted(t) => t.aff().indim == d,
            GSpec::Eliminated(g) => g.fits(d),
        }
    }
    pub fn out_dim(&self, d: usize) -> usize {
        match self {
            GSpec::Argmax | GSpec::ClassChar(_) => 1,
            GSpec::Eliminated(g) => g.out_dim(d),
            GSpec::User(t) | GSpec::Rerooted(t) => t.out_dim().unwrap_or(d),
            _ => d,
        }
    }
    pub fn build(&self, d: usize) -> AffTree<2> {
        match self {
            GSpec::Relu(i) => schema::partial_ReLU(d, *i),
            GSpec::Leaky(i, a) => schema::partial_leaky_ReLU(d, *i, *a),
            GSpec::HardTanh(i) => schema::partial_hard_tanh(d, *i, -1.0, 1.0),
            GSpec::HardShrink(i, l) => schema::partial_hard_shrink(d, *i, *l),
            GSpec::Threshold(i, t, v) => schema::partial_threshold(d, *i, *t, *v),
            GSpec::Argmax => schema::argmax(d),
            GSpec::ClassChar(c) => schema::class_characterization(d, *c),
            GSpec::FromPoly(rows, with_else) => {
                let e = Aff::new(vec![vec![0.0; d]; d], vec![-1.0; d]).to_real();
                AffTree::<2>::from_poly(polytope(rows), Aff::identity(d).to_real(), if *with_else { Some(&e) } else { None }).unwrap()
            }
            // storage layout by size: depth-first, breadth-first, re-used indices, column-major matrices
            GSpec::User(t) => t.build_layout::<2>((t.n_nodes() % 5) as u8),
            GSpec::Rerooted(t) => t.build_rerooted::<2>((t.n_nodes() % 2) as u8),
            GSpec::Eliminated(g) => {
                let mut t = g.build(d);
                t.infeasible_elimination();
                t
            }
        }
    }
    pub fn to_json(&self) -> Value {
        match self {
            GSpec::User(t) => json!({"user_tree": t.to_json()}),
            GSpec::Rerooted(t) => json!({"user_tree_over_rerooted_arena": t.to_json()}),
            GSpec::Eliminated(g) => json!({"after_own_infeasible_elimination": g.to_json()}),
            o => json!(format!("{:?}", o)),
        }
    }
}

#[derive(Clone, Debug, PartialEq)]
pub enum Op {
    Apply(Aff),
    Compose(GSpec, bool),
    Elim,
    Reduce,
    /// tree (+,-,*) tree; operand is a tree over the same input space
    Arith(char, TSpec),
    Neg,
    /// tree (+,-) affine function, `true` = affine operand on the left
    ArithAff(char, Aff, bool),
    RemoveAxes(Vec<bool>),
}

impl Op {
    pub fn to_json(&self) -> Value {
        match self {
            Op::Apply(a) => json!({"apply_func": a.to_json()}),
            Op::Compose(g, p) => json!({"compose": g.to_json(), "prune": p}),
            Op::Elim => json!("infeasible_elimination"),
            Op::Reduce => json!("reduce"),
            Op::Arith(c, t) => json!({"arith": c.to_string(), "operand_tree": t.to_json()}),
            Op::Neg => json!("neg"),
            Op::ArithAff(c, a, left) => json!({"arith": c.to_string(), "operand_aff": a.to_json(), "aff_on_left": left}),
            Op::RemoveAxes(m) => json!({"remove_axes_keep": m}),
        }
    }
    pub fn fits(&self, d: usize) -> bool {
        match self {
            Op::Apply(a) => a.indim == d,
            Op::Compose(g, _) => g.fits(d),
            Op::Arith(_, t) => t.out_dim() == Some(d),
            Op::ArithAff(_, a, _) => a.outdim() == d,
            _ => true,
        }
    }
    /// additionally requires the tree's input dimension
    pub fn fits_in(&self, in_dim: usize) -> bool {
        match self {
            Op::Arith(_, t) => t.aff().indim == in_dim,
            Op::ArithAff(_, a, _) => a.indim == in_dim,
            Op::RemoveAxes(m) => m.len() == in_dim,
            _ => true,
        }
    }
    pub fn in_dim_after(&self, in_dim: usize) -> usize {
        match self {
            Op::RemoveAxes(m) => m.iter().filter(|x| **x).count(),
            _ => in_dim,
        }
    }
    pub fn out_dim(&self, d: usize) -> usize {
        match self {
            Op::Apply(a) => a.outdim(),
            Op::Compose(g, _) => g.out_dim(d),
            _ => d,
        }
    }
    /// run on the real tree; Err(panic message)
    pub fn run(&self, t: &mut AffTree<2>, d: usize) -> Result<(), String> {
        catch(|| match self {
            Op::Apply(a) => t.apply_func(&a.to_real_auto()),
            Op::Compose(g, prune) => {
                let gt = g.build(d);
                if *prune {
                    t.compose::<true, false>(&gt)
                } else {
                    t.compose::<false, false>(&gt)
                }
            }
            Op::Elim => {
                t.infeasible_elimination();
            }
            Op::Reduce => t.reduce(),
            Op::Arith(c, o) => {
                let b = o.build_layout::<2>((o.n_nodes() % 5) as u8);
                let a = std::mem::replace(t, AffTree::<2>::new(1));
                *t = match c {
                    '+' => a + &b,
                    '-' => a - &b,
                    '*' => a * &b,
                    _ => a / &b,
                };
            }
            Op::Neg => {
                let a = std::mem::replace(t, AffTree::<2>::new(1));
                *t = -a;
            }
            Op::ArithAff(c, f, left) => {
                let a = std::mem::replace(t, AffTree::<2>::new(1));
                let f = f.to_real_auto();
                *t = match (c, left) {
                    ('+', false) => a + &f,
                    ('-', false) => a - &f,
                    ('+', true) => &f + a,
                    ('-', true) => &f - a,
                    ('*', false) => a * &f,
                    ('*', true) => &f * a,
                    (_, false) => a / &f,
                    (_, true) => &f / a,
                };
            }
            Op::RemoveAxes(m) => {
                t.remove_axes(&Array1::from(m.clone())).unwrap();
            }
        })
    }
    /// Like `run`; for a composition the progress-display variant (`VERBOSE = true`) is additionally run
    /// on a copy. Both variants must leave identical arenas; a difference is reported as Err("VARIANT: ..").
    pub fn run_both(&self, t: &mut AffTree<2>, d: usize) -> Result<(), String> {
        if let Op::Compose(g, prune) = self {
            let mut v = t.clone();
            let gt = g.build(d);
            let rv = catch(|| {
                if *prune {
                    v.compose::<true, true>(&gt)
                } else {
                    v.compose::<false, true>(&gt)
                }
            });
            let r = self.run(t, d);
            if r.is_ok() {
                match rv {
                    Err(m) => return Err(format!("VARIANT: compose::<{prune}, true> panicked where compose::<{prune}, false> did not: {m}")),
                    Ok(()) => {
                        let (a, b) = (crate::snap::snap(t), crate::snap::snap(&v));
                        if a != b {
                            return Err(format!(
                                "VARIANT: compose::<{prune}, true> and compose::<{prune}, false> leave different trees ({} vs {} nodes)",
                                b.nodes.len(),
                                a.nodes.len()
                            ));
                        }
                    }
                }
            }
            r
        } else {
            self.run(t, d)
        }
    }
    /// (kind tag, text) for an Err of `run_both`
    pub fn failure(&self, msg: &str) -> (&'static str, String) {
        match msg.strip_prefix("VARIANT: ") {
            Some(m) => ("variant", m.to_string()),
            None => ("panic", format!("{} panicked: {msg}", self.name())),
        }
    }
    /// the same step without pruning (reference track)
    pub fn unpruned(&self) -> Option<Op> {
        match self {
            Op::Apply(a) => Some(Op::Apply(a.clone())),
            Op::Compose(g, _) => Some(Op::Compose(g.clone(), false)),
            Op::Elim | Op::Reduce => None,
            o => Some(o.clone()),
        }
    }
    pub fn name(&self) -> &'static str {
        match self {
            Op::Apply(_) => "apply_func",
            Op::Compose(_, true) => "compose_pruned",
            Op::Compose(_, false) => "compose",
            Op::Elim => "infeasible_elimination",
            Op::Reduce => "reduce",
            Op::Arith(..) => "tree_arithmetic",
            Op::Neg => "neg",
            Op::ArithAff(..) => "affine_arithmetic",
            Op::RemoveAxes(_) => "remove_axes",
        }
    }
    pub fn prunes(&self) -> bool {
        matches!(self, Op::Elim | Op::Compose(_, true))
    }
}

/// initial trees
#[derive(Clone, Debug, PartialEq)]
pub enum Init {
    New(usize),
    FromAff(Aff),
    FromPoly(Vec<(Vec<f64>, f64)>, Aff, Option<Aff>),
    Schema(GSpec, usize),
    Spec(TSpec),
    /// the inner constructor result whose root cache a user filled with sample inputs; every point is a valid
    /// witness of the root, whose path region is the whole input space
    Seeded(Box<Init>, Vec<Vec<f64>>),
}

impl Init {
    pub fn build(&self) -> AffTree<2> {
        match self {
            Init::New(d) => AffTree::<2>::new(*d),
            Init::FromAff(a) => AffTree::<2>::from_aff(a.to_real_auto()),
            Init::FromPoly(rows, t, e) => {
                let er = e.as_ref().map(|x| x.to_real());
                AffTree::<2>::from_poly(polytope(rows), t.to_real(), er.as_ref()).unwrap()
            }
            Init::Schema(g, d) => g.build(*d),
            Init::Spec(t) => t.build_layout::<2>((t.n_nodes() % 5) as u8),
            Init::Seeded(i, pts) => {
                let mut t = i.build();
                // an empty list stands for the state Feasible ("feasible, witness no longer required or not known")
                t.tree.node_value_mut(0).unwrap().state = if pts.is_empty() {
                    affinitree::pwl::node::NodeState::Feasible
                } else {
                    affinitree::pwl::node::NodeState::FeasibleWitness(pts.iter().map(|p| Array1::from(p.clone())).collect())
                };
                t
            }
        }
    }
    pub fn out_dim(&self) -> usize {
        match self {
            Init::New(d) => *d,
            Init::FromAff(a) => a.outdim(),
            Init::FromPoly(_, t, _) => t.outdim(),
            Init::Schema(g, d) => g.out_dim(*d),
            Init::Spec(t) => t.out_dim().unwrap(),
            Init::Seeded(i, _) => i.out_dim(),
        }
    }
    pub fn in_dim(&self) -> usize {
        match self {
            Init::New(d) => *d,
            Init::FromAff(a) => a.indim,
            Init::FromPoly(rows, _, _) => rows[0].0.len(),
            Init::Schema(_, d) => *d,
            Init::Spec(t) => t.aff().indim,
            Init::Seeded(i, _) => i.in_dim(),
        }
    }
    pub fn to_json(&self) -> Value {
        match self {
            Init::New(d) => json!({"new": d}),
            Init::FromAff(a) => json!({"from_aff": a.to_json()}),
            Init::FromPoly(r, t, e) => json!({"from_poly": {"rows": r, "f_true": t.to_json(), "f_false": e.as_ref().map(|x| x.to_json())}}),
            Init::Schema(g, d) => json!({"schema": g.to_json(), "dim": d}),
            Init::Spec(t) => json!({"tree": t.to_json()}),
            Init::Seeded(i, pts) => json!({"seeded_root_witnesses": pts, "of": i.to_json()}),
        }
    }
}
