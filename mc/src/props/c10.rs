//! C10 — the LP layer classifies polytopes and optimises correctly.
//! Exhaustive grid of small constraint systems and objectives against the exact rational LP.
use super::common::*;
use crate::lp::{maximize, thickness, LpResult, Rel, Row, Thickness};
use crate::q::{dot, Q};
use crate::report::{catch, par_cases, CaseOut, Report, Tier, Violation};
use affinitree::linalg::affine::Polytope;
use affinitree::linalg::polyhedron::PolytopeStatus;
use ndarray::{Array1, Array2};
use serde_json::json;

#[derive(Clone, Debug)]
pub struct Sys {
    pub n: usize,
    pub rows: Vec<(Vec<f64>, f64)>,
}

thread_local! {
    /// when set, Sys::poly() stores the matrix column-major
    pub static FORTRAN: std::cell::Cell<bool> = const { std::cell::Cell::new(false) };
}

impl Sys {
    pub fn poly(&self) -> Polytope {
        use ndarray::ShapeBuilder;
        let m = self.rows.len();
        let mut a = if FORTRAN.with(|f| f.get()) { Array2::<f64>::zeros((m, self.n).f()) } else { Array2::<f64>::zeros((m, self.n)) };
        let mut b = Array1::<f64>::zeros(m);
        for (i, (r, bb)) in self.rows.iter().enumerate() {
            for j in 0..self.n {
                a[[i, j]] = r[j];
            }
            b[i] = *bb;
        }
        Polytope::from_mats(a, b)
    }
    pub fn rows_q(&self) -> Vec<(Vec<Q>, Q)> {
        super::c17::rows_q(&self.rows)
    }
    pub fn lp_rows(&self) -> Vec<Row> {
        self.rows_q().into_iter().map(|(a, b)| Row::le(a, b)).collect()
    }
}

/// all systems with exactly m rows over the coefficient / bias alphabets (row order matters)
pub fn systems(n: usize, m: usize, coef: &[f64], bias: &[f64]) -> Vec<Sys> {
    let mut single: Vec<(Vec<f64>, f64)> = vec![];
    let mut idx = vec![0usize; n];
    loop {
        let a: Vec<f64> = idx.iter().map(|i| coef[*i]).collect();
        for b in bias {
            single.push((a.clone(), *b));
        }
        let mut k = 0;
        loop {
            if k == n {
                break;
            }
            idx[k] += 1;
            if idx[k] < coef.len() {
                break;
            }
            idx[k] = 0;
            k += 1;
        }
        if k == n {
            break;
        }
    }
    let mut out = vec![];
    let mut sel = vec![0usize; m];
    loop {
        out.push(Sys { n, rows: sel.iter().map(|i| single[*i].clone()).collect() });
        let mut k = 0;
        loop {
            if k == m {
                break;
            }
            sel[k] += 1;
            if sel[k] < single.len() {
                break;
            }
            sel[k] = 0;
            k += 1;
        }
        if k == m {
            break;
        }
    }
    out
}

pub fn objectives(n: usize, vals: &[f64]) -> Vec<Vec<f64>> {
    let mut out = vec![];
    let mut idx = vec![0usize; n];
    loop {
        out.push(idx.iter().map(|i| vals[*i]).collect());
        let mut k = 0;
        loop {
            if k == n {
                break;
            }
            idx[k] += 1;
            if idx[k] < vals.len() {
                break;
            }
            idx[k] = 0;
            k += 1;
        }
        if k == n {
            break;
        }
    }
    out
}

const TAU: f64 = 1e-8;

fn in_set(rows: &[(Vec<Q>, Q)], w: &[Q]) -> bool {
    let tol = Q::from_f64(TAU + 1e-12);
    rows.iter().all(|(a, b)| &dot(a, w) - b <= tol)
}

/// is the optimal face {x in P : c.x = v} unbounded?
pub fn optimal_face_unbounded(n: usize, rows: &[(Vec<Q>, Q)], c: &[Q]) -> bool {
    // recession directions d: A d <= 0, c.d = 0, |d|_inf <= 1
    let mut lp: Vec<Row> = rows.iter().map(|(a, _)| Row::le(a.clone(), Q::ZERO)).collect();
    lp.push(Row { a: c.to_vec(), b: Q::ZERO, rel: Rel::Eq });
    for j in 0..n {
        let mut e = vec![Q::ZERO; n];
        e[j] = Q::ONE;
        lp.push(Row::le(e.clone(), Q::ONE));
        e[j] = Q::int(-1);
        lp.push(Row::le(e, Q::ONE));
    }
    for j in 0..n {
        for s in [1i64, -1] {
            let mut obj = vec![Q::ZERO; n];
            obj[j] = Q::int(s);
            if let LpResult::Optimal(_, v) = maximize(n, &lp, &obj) {
                if v.is_pos() {
                    return true;
                }
            }
        }
    }
    false
}

fn sqrt_bracket(x: &Q) -> (Q, Q) {
    if x.is_zero() {
        return (Q::ZERO, Q::ZERO);
    }
    let s = Q::from_f64(x.to_f64().sqrt());
    if &s * &s == *x {
        return (s.clone(), s);
    }
    let eps = Q::from_f64(2f64.powi(-48));
    (&s * &(&Q::ONE - &eps), &s * &(&Q::ONE + &eps))
}

pub fn check_system(sys: &Sys, objs: &[Vec<f64>]) -> CaseOut {
    let mut out = CaseOut::default();
    let n = sys.n;
    let poly = sys.poly();
    let rq = sys.rows_q();
    let lp_rows = sys.lp_rows();
    let th = thickness(n, &rq, &delta());
    let rec = |extra: serde_json::Value| json!({"n": n, "rows_A_b": sys.rows, "exact_class": format!("{:?}", th), "detail": extra});
    let nontrivial = sys.rows.iter().any(|(a, _)| a.iter().any(|v| *v != 0.0));
    out.add("systems_nontrivial", nontrivial as u64);
    out.add("systems", 1);
    // ---- status / is_feasible
    out.add("evaluations", 2);
    let st = catch(|| poly.status());
    match &st {
        Err(m) => out.violate(Violation::new(format!("status() panicked: {m}"), rec(json!({}))).tag("call", "status").tag("kind", "panic")),
        Ok(PolytopeStatus::Infeasible) => {
            if th == Thickness::Fat {
                out.violate(Violation::new("status() = Infeasible for a polytope with interior margin", rec(json!({}))).tag("call", "status").tag("kind", "infeasible_but_fat"));
            }
        }
        Ok(PolytopeStatus::Error(e)) => {
            if th == Thickness::Fat {
                out.violate(Violation::new(format!("status() = Error({e}) for a fat polytope"), rec(json!({}))).tag("call", "status").tag("kind", "error_on_fat"));
            }
        }
        Ok(PolytopeStatus::Optimal(w)) => {
            let wq: Vec<Q> = w.iter().map(|x| Q::from_f64(*x)).collect();
            if !in_set(&rq, &wq) {
                out.violate(Violation::new(format!("status() witness {:?} is outside the set", w.to_vec()), rec(json!({}))).tag("call", "status").tag("kind", "witness_outside"));
            }
            if th == Thickness::RobustEmpty {
                out.violate(Violation::new("status() = Optimal for a robustly empty set", rec(json!({}))).tag("call", "status").tag("kind", "feasible_but_empty"));
            }
        }
        Ok(PolytopeStatus::Unbounded) => {
            // zero objective: 'unbounded' can only mean feasible
            if th == Thickness::RobustEmpty {
                out.violate(Violation::new("status() = Unbounded for a robustly empty set", rec(json!({}))).tag("call", "status").tag("kind", "feasible_but_empty"));
            }
        }
    }
    let isf = catch(|| poly.is_feasible());
    match (&isf, &st) {
        (Err(m), Ok(s)) if !matches!(s, PolytopeStatus::Error(_)) => out.violate(Violation::new(format!("is_feasible() panicked: {m}"), rec(json!({}))).tag("call", "is_feasible").tag("kind", "panic")),
        (Ok(b), Ok(s)) => {
            let exp = !matches!(s, PolytopeStatus::Infeasible);
            if *b != exp {
                out.violate(Violation::new(format!("is_feasible() = {b} but status() = {:?}", s), rec(json!({}))).tag("call", "is_feasible").tag("kind", "disagrees_with_status"));
            }
        }
        _ => {}
    }
    // ---- solve_linprog for every objective
    let exact_empty = matches!(maximize(n, &lp_rows, &vec![Q::ZERO; n]), LpResult::Infeasible);
    for c in objs {
        out.add("evaluations", 1);
        let cq: Vec<Q> = c.iter().map(|x| Q::from_f64(*x)).collect();
        let neg: Vec<Q> = cq.iter().map(|v| -v).collect();
        let exact = maximize(n, &lp_rows, &neg); // min c.x = -max(-c.x)
        // in the column-major re-run the objective is an owned array that is not in standard layout either: stored
        // back to front with stride -1, or every second element of a longer buffer
        let obj: Array1<f64> = if FORTRAN.with(|f| f.get()) && c.len() >= 2 {
            if c.iter().map(|x| x.abs() as usize).sum::<usize>() % 2 == 0 {
                let mut o = Array1::from(c.iter().rev().cloned().collect::<Vec<f64>>());
                o.invert_axis(ndarray::Axis(0));
                o
            } else {
                let mut buf = vec![];
                for x in c.iter() {
                    buf.push(*x);
                    buf.push(7.0);
                }
                Array1::from(buf).slice_move(ndarray::s![..;2])
            }
        } else {
            Array1::from(c.clone())
        };
        debug_assert_eq!(obj.to_vec(), c.clone());
        let real = catch(|| poly.solve_linprog(obj, false));
        let recc = |extra: serde_json::Value| rec(json!({"objective_min": c, "exact": match &exact { LpResult::Infeasible => "infeasible".to_string(), LpResult::Unbounded => "unbounded below".to_string(), LpResult::Optimal(x, v) => format!("min {} at {:?}", -v.clone(), crate::q::fmt_vec(x)) }, "more": extra}));
        match real {
            Err(m) => out.violate(Violation::new(format!("solve_linprog panicked: {m}"), recc(json!({}))).tag("call", "solve_linprog").tag("kind", "panic")),
            Ok(PolytopeStatus::Optimal(w)) => {
                let wq: Vec<Q> = w.iter().map(|x| Q::from_f64(*x)).collect();
                match &exact {
                    LpResult::Infeasible => {
                        if th == Thickness::RobustEmpty {
                            out.violate(Violation::new("solve_linprog = Optimal on a robustly empty set", recc(json!({}))).tag("call", "solve_linprog").tag("kind", "feasible_but_empty"));
                        }
                    }
                    LpResult::Unbounded => out.violate(Violation::new(format!("solve_linprog = Optimal({:?}) but the objective is unbounded below", w.to_vec()), recc(json!({}))).tag("call", "solve_linprog").tag("kind", "optimal_but_unbounded")),
                    LpResult::Optimal(_, v) => {
                        if !in_set(&rq, &wq) {
                            out.violate(Violation::new(format!("solve_linprog point {:?} outside the set", w.to_vec()), recc(json!({}))).tag("call", "solve_linprog").tag("kind", "witness_outside"));
                        }
                        let val = dot(&cq, &wq);
                        let min = -v.clone();
                        if (&val - &min).abs() > Q::from_f64(1e-7) {
                            out.violate(Violation::new(format!("solve_linprog value {} but the minimum is {}", val.to_f64(), min.to_f64()), recc(json!({}))).tag("call", "solve_linprog").tag("kind", "not_optimal"));
                        }
                    }
                }
            }
            Ok(PolytopeStatus::Unbounded) => match &exact {
                LpResult::Unbounded => {}
                LpResult::Infeasible => {
                    if th == Thickness::RobustEmpty {
                        out.violate(Violation::new("solve_linprog = Unbounded on a robustly empty set", recc(json!({}))).tag("call", "solve_linprog").tag("kind", "unbounded_but_empty"));
                    }
                }
                LpResult::Optimal(..) => {
                    let face_unb = optimal_face_unbounded(n, &rq, &cq);
                    out.violate(
                        Violation::new(format!("solve_linprog = Unbounded for objective {:?} although the minimum is finite", c), recc(json!({"optimal_face_unbounded": face_unb})))
                            .tag("call", "solve_linprog").tag("kind", "unbounded_but_finite").tag("optimal_face", if face_unb { "unbounded" } else { "bounded" }),
                    );
                }
            },
            Ok(PolytopeStatus::Infeasible) => {
                if !exact_empty && th == Thickness::Fat {
                    out.violate(Violation::new("solve_linprog = Infeasible for a fat polytope", recc(json!({}))).tag("call", "solve_linprog").tag("kind", "infeasible_but_fat"));
                }
            }
            Ok(PolytopeStatus::Error(e)) => {
                if th == Thickness::Fat {
                    out.violate(Violation::new(format!("solve_linprog = Error({e}) for a fat polytope"), recc(json!({}))).tag("call", "solve_linprog").tag("kind", "error_on_fat"));
                }
            }
        }
    }
    // ---- Chebyshev centre
    out.add("evaluations", 1);
    let real = catch(|| {
        let (p2, cost) = poly.chebyshev_center();
        p2.solve_linprog(cost, false)
    });
    // exact bracket: maximise r s.t. a_i x + r*norm_i <= b_i, r >= 0 with norms rounded up (lower bound for r*) / down (upper bound)
    let norms: Vec<(Q, Q)> = rq.iter().map(|(a, _)| sqrt_bracket(&dot(a, a))).collect();
    let solve = |upper_norms: bool| -> LpResult {
        let mut rows: Vec<Row> = vec![];
        for ((a, b), (lo, hi)) in rq.iter().zip(norms.iter()) {
            let mut a2 = a.clone();
            a2.push(if upper_norms { hi.clone() } else { lo.clone() });
            rows.push(Row::le(a2, b.clone()));
        }
        let mut rr = vec![Q::ZERO; n + 1];
        rr[n] = Q::int(-1);
        rows.push(Row::le(rr, Q::ZERO));
        let mut c = vec![Q::ZERO; n + 1];
        c[n] = Q::ONE;
        maximize(n + 1, &rows, &c)
    };
    let lo = solve(true);
    let hi = solve(false);
    let recb = |extra: serde_json::Value| rec(json!({"call": "chebyshev_center + solve_linprog", "exact_radius_lower": match &lo { LpResult::Optimal(_, v) => v.to_f64().to_string(), o => format!("{:?}", o) }, "exact_radius_upper": match &hi { LpResult::Optimal(_, v) => v.to_f64().to_string(), o => format!("{:?}", o) }, "more": extra}));
    match real {
        Err(m) => out.violate(Violation::new(format!("chebyshev program panicked: {m}"), recb(json!({}))).tag("call", "chebyshev").tag("kind", "panic")),
        Ok(PolytopeStatus::Optimal(w)) => {
            let wq: Vec<Q> = w.iter().map(|x| Q::from_f64(*x)).collect();
            let r = wq[n].clone();
            let tol = Q::from_f64(TAU + 1e-9);
            let mut bad = false;
            for ((a, b), (nlo, _)) in rq.iter().zip(norms.iter()) {
                if &(&dot(a, &wq[..n]) + &(&r * nlo)) - b > tol {
                    bad = true;
                }
            }
            if r < -tol.clone() {
                bad = true;
            }
            if bad {
                out.violate(Violation::new(format!("chebyshev centre {:?} with radius {} does not fit into the polytope", &w.to_vec()[..n], w[n]), recb(json!({}))).tag("call", "chebyshev").tag("kind", "ball_outside"));
            }
            match (&lo, &hi) {
                (LpResult::Optimal(_, l), LpResult::Optimal(_, h)) => {
                    if r < l - &Q::from_f64(1e-7) || r > h + &Q::from_f64(1e-7) {
                        out.violate(Violation::new(format!("chebyshev radius {} outside the exact bracket [{}, {}]", w[n], l.to_f64(), h.to_f64()), recb(json!({}))).tag("call", "chebyshev").tag("kind", "radius_not_maximal"));
                    }
                }
                (_, LpResult::Unbounded) | (LpResult::Unbounded, _) => {
                    out.violate(Violation::new(format!("chebyshev program = Optimal(r={}) although arbitrarily large balls fit", w[n]), recb(json!({}))).tag("call", "chebyshev").tag("kind", "optimal_but_unbounded"));
                }
                _ => {
                    if th == Thickness::RobustEmpty {
                        out.violate(Violation::new("chebyshev program = Optimal on a robustly empty set", recb(json!({}))).tag("call", "chebyshev").tag("kind", "feasible_but_empty"));
                    }
                }
            }
        }
        Ok(PolytopeStatus::Unbounded) => match (&lo, &hi) {
            (LpResult::Unbounded, _) | (_, LpResult::Unbounded) => {}
            (LpResult::Optimal(..), LpResult::Optimal(x, v)) => {
                // finite largest ball: the optimal face of the chebyshev program (set of centres) may be unbounded
                let mut rows2: Vec<(Vec<Q>, Q)> = vec![];
                for ((a, b), (nlo, _)) in rq.iter().zip(norms.iter()) {
                    let mut a2 = a.clone();
                    a2.push(nlo.clone());
                    rows2.push((a2, b.clone()));
                }
                let mut rr = vec![Q::ZERO; n + 1];
                rr[n] = Q::int(-1);
                rows2.push((rr.clone(), Q::ZERO));
                let face_unb = optimal_face_unbounded(n + 1, &rows2, &rr);
                let _ = (x, v);
                out.violate(
                    Violation::new("chebyshev program = Unbounded although the largest inscribed ball is finite", recb(json!({"centre_set_unbounded": face_unb})))
                        .tag("call", "chebyshev").tag("kind", "unbounded_but_finite").tag("optimal_face", if face_unb { "unbounded" } else { "bounded" }),
                );
            }
            _ => {
                if th == Thickness::RobustEmpty {
                    out.violate(Violation::new("chebyshev program = Unbounded on a robustly empty set", recb(json!({}))).tag("call", "chebyshev").tag("kind", "unbounded_but_empty"));
                }
            }
        },
        Ok(PolytopeStatus::Infeasible) => {
            if th == Thickness::Fat {
                out.violate(Violation::new("chebyshev program = Infeasible for a fat polytope", recb(json!({}))).tag("call", "chebyshev").tag("kind", "infeasible_but_fat"));
            }
        }
        Ok(PolytopeStatus::Error(e)) => {
            if th == Thickness::Fat {
                out.violate(Violation::new(format!("chebyshev program = Error({e})"), recb(json!({}))).tag("call", "chebyshev").tag("kind", "error_on_fat"));
            }
        }
    }
    out
}

pub fn grid(tier: Tier) -> Vec<(Sys, usize)> {
    let mut v = vec![];
    let bias = [-1.0, 0.0, 1.0, 2.0];
    let c3 = [0.0, 1.0, -1.0];
    let c5 = [0.0, 1.0, -1.0, 2.0, -2.0];
    for m in 1..=4 {
        for s in systems(1, m, &[0.0, 1.0, -1.0, 2.0], &bias) {
            v.push((s, 0));
        }
    }
    for m in 1..=3 {
        for s in systems(2, m, &c3, &bias) {
            v.push((s, 1));
        }
    }
    for s in systems(2, 2, &c5, &bias) {
        v.push((s, 1));
    }
    for s in systems(3, 2, &c3, &[-1.0, 0.0, 1.0]) {
        v.push((s, 2));
    }
    match tier {
        Tier::Quick => {
            for (i, s) in systems(2, 4, &c3, &[0.0, 1.0]).into_iter().enumerate() {
                if i % 5 == 0 {
                    v.push((s, 1));
                }
            }
            for (i, s) in systems(3, 3, &c3, &[0.0, 1.0]).into_iter().enumerate() {
                if i % 7 == 0 {
                    v.push((s, 2));
                }
            }
        }
        Tier::Thorough => {
            for s in systems(2, 4, &c3, &[0.0, 1.0]) {
                v.push((s, 1));
            }
            for (i, s) in systems(2, 3, &c5, &[-1.0, 0.0, 1.0]).into_iter().enumerate() {
                if i % 3 == 0 {
                    v.push((s, 1));
                }
            }
            for s in systems(3, 3, &c3, &[0.0, 1.0]) {
                v.push((s, 2));
            }
            for (i, s) in systems(3, 4, &c3, &[0.0, 1.0]).into_iter().enumerate() {
                if i % 97 == 0 {
                    v.push((s, 2));
                }
            }
        }
    }
    v
}

/// triangles, boxes and wedges around a centre c with slack >= 2 in every row, rows scaled by s
fn far_family() -> Vec<Sys> {
    let mut v = vec![];
    let shapes: Vec<Vec<Vec<f64>>> = vec![
        vec![vec![1.0, 0.0], vec![0.0, 1.0], vec![-1.0, -1.0]],
        vec![vec![1.0, 0.0], vec![-1.0, 0.0], vec![0.0, 1.0], vec![0.0, -1.0]],
        vec![vec![1.0, 2.0], vec![-3.0, 1.0], vec![1.0, -4.0]],
        vec![vec![0.1, 1.0], vec![0.1, -1.0], vec![-1.0, 0.0]],
        vec![vec![1.0, 1.0], vec![1.0, -1.0], vec![-1.0, 0.5]],
    ];
    for l in [16384.0f64, 131072.0, 1048576.0] {
        for c in [vec![l, l], vec![l, -l / 2.0], vec![-l, 3.0], vec![-l / 4.0, -l]] {
            for s in [1.0f64, 100.0, 1000.0, 10000.0, 1e6] {
                for sh in &shapes {
                    let rows: Vec<(Vec<f64>, f64)> = sh
                        .iter()
                        .map(|a| {
                            let norm = (a[0] * a[0] + a[1] * a[1]).sqrt();
                            let b = a[0] * c[0] + a[1] * c[1] + 2.0 * norm.ceil();
                            (vec![a[0] * s, a[1] * s], b * s)
                        })
                        .collect();
                    v.push(Sys { n: 2, rows });
                }
            }
        }
    }
    // bounded sets whose vertices have coordinates of about 1e200 (their squares overflow)
    for l in [1e200f64, -1e200] {
        v.push(Sys { n: 1, rows: vec![(vec![1.0], l.abs()), (vec![-1.0], 0.0)] });
        v.push(Sys { n: 2, rows: vec![(vec![l.signum(), 0.0], 1.25e200), (vec![-l.signum(), 0.0], -1e200), (vec![0.0, 1.0], 2.0), (vec![0.0, -1.0], 2.0)] });
    }
    for l in [16384.0f64, 1048576.0] {
        for s in [1.0f64, 1000.0, 1e6] {
            v.push(Sys { n: 1, rows: vec![(vec![s], (l + 2.0) * s), (vec![-s], -(l - 2.0) * s)] });
            v.push(Sys { n: 3, rows: vec![(vec![s, 0.0, 0.0], (l + 2.0) * s), (vec![-s, s, 0.0], 4.0 * s), (vec![0.0, -s, s], 4.0 * s), (vec![0.0, 0.0, -s], (l + 2.0) * s), (vec![-s, -s, -s], -(3.0 * l - 30.0) * s)] });
        }
    }
    v
}

pub fn run(tier: Tier) -> Report {
    let mut rep = Report::new("C10", tier, "exploration");
    let g = grid(tier);
    let objs: Vec<Vec<Vec<f64>>> = vec![objectives(1, &[0.0, 1.0, -1.0]), objectives(2, &[0.0, 1.0, -1.0]), objectives(3, &[0.0, 1.0, -1.0])];
    // rows with right-hand sides of 1e20 and unit coefficients (ordinary constraints at that scale; coefficients of 1e21
    // were tried and withdrawn: the Chebyshev programme of [0,1] written as 1e21 x <= 1e21 comes back with radius 0 on the
    // unchanged tree, the ill-conditioned regime of section 8)
    let mut g = g;
    for rows in [
        vec![(vec![1.0], 1e20), (vec![-1.0], 0.0)],
        vec![(vec![1.0], 1e20), (vec![-1.0], -2e20)],
        vec![(vec![-1.0], 1e20), (vec![1.0], 1e20)],
    ] {
        g.push((Sys { n: 1, rows }, 0));
    }
    let total0 = {
        // polytopes with rows but without columns (R^0): every row reads 0 <= b
        let mut out = CaseOut::default();
        for biases in [vec![-1.0], vec![1.0], vec![0.0], vec![1.0, -1.0], vec![0.0, 2.0]] {
            out.add("systems", 1);
            out.add("systems_nontrivial", 1);
            out.add("evaluations", 3);
            let m = Array2::<f64>::zeros((biases.len(), 0));
            let p = Polytope::from_mats(m, Array1::from(biases.clone()));
            let empty = biases.iter().any(|b| *b < 0.0);
            let rec = json!({"n": 0, "biases": biases});
            match catch(|| (p.status(), p.is_feasible(), p.solve_linprog(Array1::<f64>::zeros(0), false))) {
                Err(m) => out.violate(Violation::new(format!("LP layer panicked on a polytope over R^0: {m}"), rec).tag("call", "status").tag("kind", "panic").tag("family", "zero_columns")),
                Ok((st, fe, sl)) => {
                    let st_inf = matches!(st, PolytopeStatus::Infeasible);
                    let sl_inf = matches!(sl, PolytopeStatus::Infeasible);
                    if st_inf != empty || fe == empty || sl_inf != empty {
                        out.violate(Violation::new(format!("polytope over R^0 with biases {:?}: status infeasible={st_inf}, is_feasible={fe}, solve_linprog infeasible={sl_inf}; the set is {}", biases, if empty { "empty" } else { "the single point" }), rec).tag("call", "status").tag("kind", "verdict").tag("family", "zero_columns"));
                    }
                }
            }
        }
        out
    };
    let total = par_cases(&g, |i, (s, oi)| {
        let mut o = check_system(s, &objs[*oi]);
        // every 3rd system with a matrix of at least 2x2 once more with column-major storage
        if s.n >= 2 && s.rows.len() >= 2 && i % 3 == 0 {
            FORTRAN.with(|f| f.set(true));
            let mut o2 = check_system(s, &objs[*oi]);
            FORTRAN.with(|f| f.set(false));
            for v in o2.violations.iter_mut() {
                v.tags.insert("storage".into(), "column_major".into());
            }
            o2.vcount = o2.vcount.into_iter().map(|(k, c)| (format!("{k}+cm"), c)).collect();
            o.add("systems_column_major", 1);
            o.merge(o2);
        }
        o
    });
    // polytopes that contain a ball of radius 1, far from the origin and with rows scaled up: only the verdict is
    // judged there (a vertex cannot be represented to 1e-8 at that magnitude), and it must not be "infeasible"
    let far = far_family();
    rep.set("systems_far_from_origin", far.len() as u64);
    let tf = par_cases(&far, |_, s| {
        let mut out = CaseOut::default();
        out.add("systems", 1);
        out.add("systems_nontrivial", 1);
        let rq = s.rows_q();
        if thickness(s.n, &rq, &Q::ONE) != Thickness::Fat {
            return out; // not a member of the family (cannot happen by construction)
        }
        let rec = |what: &str| json!({"n": s.n, "rows_A_b": s.rows, "call": what});
        let p = s.poly();
        out.add("evaluations", 2);
        match catch(|| (p.status(), p.is_feasible())) {
            Err(m) => out.violate(Violation::new(format!("status panicked: {m}"), rec("status")).tag("call", "status").tag("kind", "panic").tag("family", "far")),
            Ok((st, fe)) => {
                if matches!(st, PolytopeStatus::Infeasible) {
                    out.violate(Violation::new("status() = Infeasible for a polytope that contains a unit ball", rec("status")).tag("call", "status").tag("kind", "infeasible_but_fat").tag("family", "far"));
                }
                if !fe {
                    out.violate(Violation::new("is_feasible() = false for a polytope that contains a unit ball", rec("is_feasible")).tag("call", "is_feasible").tag("kind", "infeasible_but_fat").tag("family", "far"));
                }
            }
        }
        // bounded in every coordinate direction (exact)?
        let lp_rows: Vec<Row> = rq.iter().map(|(a, b)| Row::le(a.clone(), b.clone())).collect();
        let bounded = (0..s.n).all(|i| {
            [1i64, -1].iter().all(|sg| {
                let mut c = vec![Q::ZERO; s.n];
                c[i] = Q::int(*sg);
                matches!(maximize(s.n, &lp_rows, &c), LpResult::Optimal(..))
            })
        });
        for c in objectives(s.n, &[0.0, 1.0, -1.0]) {
            out.add("evaluations", 1);
            match catch(|| p.solve_linprog(Array1::from(c.clone()), false)) {
                Ok(PolytopeStatus::Infeasible) => {
                    out.violate(Violation::new(format!("solve_linprog({:?}) = Infeasible for a polytope that contains a unit ball", c), rec("solve_linprog")).tag("call", "solve_linprog").tag("kind", "infeasible_but_fat").tag("family", "far"));
                }
                Ok(PolytopeStatus::Unbounded) if bounded => {
                    out.violate(Violation::new(format!("solve_linprog({:?}) = Unbounded for a bounded polytope", c), rec("solve_linprog")).tag("call", "solve_linprog").tag("kind", "unbounded_but_bounded").tag("family", "far"));
                }
                _ => {}
            }
        }
        if bounded {
            if let Ok(PolytopeStatus::Unbounded) = catch(|| p.status()) {
                out.violate(Violation::new("status() = Unbounded for a bounded polytope", rec("status")).tag("call", "status").tag("kind", "unbounded_but_bounded").tag("family", "far"));
            }
        }
        out
    });
    rep.absorb(tf);
    rep.set("systems_total", g.len() as u64);
    if let Some((s, _)) = g.get(g.len() / 2) {
        rep.samples.push(json!({"n": s.n, "rows_A_b": s.rows, "objectives": objs[s.n - 1]}));
    }
    rep.absorb(total);
    rep.absorb(total0);
    let nt = rep.coverage.get("systems_nontrivial").and_then(|v| v.as_u64()).unwrap_or(0);
    rep.set("distinct_nontrivial", nt);
    rep.set("rule", "every ordered list of m rows over the coefficient and bias alphabets (row order not canonicalised: the solver is order-sensitive) x every objective in {0,+-1}^n; status, is_feasible, solve_linprog per objective and the Chebyshev programme are each one evaluation; a system is non-trivial if at least one row has a non-zero coefficient; distinct because the enumeration never repeats a row list");
    rep.set("bound", match tier {
        Tier::Quick => "n=1: m<=4 rows over {0,+-1,2} x {-1,0,1,2}; n=2: m<=3 over {0,+-1} x {-1,0,1,2}, m=2 over {0,+-1,+-2}, every 5th system with m=4; n=3: m=2, every 7th system with m=3",
        Tier::Thorough => "quick grid plus n=2: all systems with m=4 over {0,+-1} x {0,1}, every 3rd with m=3 over {0,+-1,+-2}; n=3: all with m=3, every 97th with m=4",
    });
    rep.assume("three-valued oracle: 'infeasible' is wrong only for fat sets (margin 1e-6), 'feasible' only for robustly empty ones; witnesses within 1e-8; optimal values within 1e-7; Chebyshev radius within a rational bracket of the irrational norms");
    rep
}
