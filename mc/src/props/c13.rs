//! C13 — traversals and tree metrics are exact for every shape and start node.
//! Space: every arena state reached by the C12 history search (all shapes with <= max_len
//! nodes, missing children, contiguous and re-used indices) x every start node x
//! {DfsPre, DfsEdge, Bfs} x skip plans.
use super::c12::{bfs, Act};
use crate::report::{catch, par_cases, CaseOut, Report, Tier, Violation};
use affinitree::linalg::affine::AffFunc;
use affinitree::pwl::afftree::AffTree;
use affinitree::pwl::node::AffContent;
use affinitree::tree::graph::Tree;
use affinitree::tree::iter::{Bfs, DfsEdge, DfsPre, TraversalMut};
use serde_json::json;
use std::collections::{BTreeMap, BTreeSet, VecDeque};

/// adjacency copy read through `tree_node(i)`
#[derive(Clone, Debug)]
struct Adj {
    root: usize,
    nodes: BTreeMap<usize, (Option<usize>, Vec<Option<usize>>, bool)>,
}

fn adj<N, const K: usize>(t: &Tree<N, K>, bound: usize) -> Adj {
    let mut nodes = BTreeMap::new();
    for i in 0..bound {
        if let Ok(n) = t.tree_node(i) {
            nodes.insert(i, (n.parent, n.children.to_vec(), n.isleaf));
        }
    }
    Adj { root: t.get_root_idx(), nodes }
}

impl Adj {
    fn kids(&self, i: usize) -> Vec<(usize, usize)> {
        self.nodes[&i].1.iter().enumerate().filter_map(|(l, c)| c.map(|c| (l, c))).collect()
    }
    /// (index, depth, later siblings)
    fn pre(&self, start: usize, skip: &BTreeSet<usize>) -> Vec<(usize, usize, usize)> {
        let mut out = vec![];
        fn rec(a: &Adj, i: usize, d: usize, rem: usize, skip: &BTreeSet<usize>, out: &mut Vec<(usize, usize, usize)>) {
            out.push((i, d, rem));
            if skip.contains(&i) {
                return;
            }
            let ks = a.kids(i);
            let n = ks.len();
            for (p, (_, c)) in ks.into_iter().enumerate() {
                rec(a, c, d + 1, n - 1 - p, skip, out);
            }
        }
        rec(self, start, 0, 0, skip, &mut out);
        out
    }
    fn edges(&self, start: usize, skip: &BTreeSet<usize>) -> Vec<(usize, usize, usize)> {
        let mut out = vec![];
        fn rec(a: &Adj, i: usize, skip: &BTreeSet<usize>, out: &mut Vec<(usize, usize, usize)>) {
            for (l, c) in a.kids(i) {
                out.push((i, l, c));
                if !skip.contains(&c) {
                    rec(a, c, skip, out);
                }
            }
        }
        rec(self, start, skip, &mut out);
        out
    }
    fn level(&self, start: usize, skip: &BTreeSet<usize>) -> Vec<(usize, usize, usize)> {
        let mut out = vec![];
        let mut q = VecDeque::new();
        q.push_back((start, 0usize, 0usize));
        while let Some((i, d, rem)) = q.pop_front() {
            out.push((i, d, rem));
            if skip.contains(&i) {
                continue;
            }
            let ks = self.kids(i);
            let n = ks.len();
            for (p, (_, c)) in ks.into_iter().enumerate() {
                q.push_back((c, d + 1, n - 1 - p));
            }
        }
        out
    }
    fn subtree(&self, i: usize) -> Vec<usize> {
        self.pre(i, &BTreeSet::new()).into_iter().map(|x| x.0).collect()
    }
}

#[derive(Clone, Copy, Debug, PartialEq, Eq)]
enum Kind {
    Pre,
    Edge,
    Level,
}

/// run the real traversal with the plan; returns (items, size_hint read before each next incl. the final None)
fn real_run<N, const K: usize>(
    t: &Tree<N, K>,
    kind: Kind,
    start: usize,
    plan: &BTreeSet<usize>,
    double: bool,
    pre: bool,
) -> Result<(Vec<(usize, usize, usize)>, Vec<(usize, Option<usize>)>), String> {
    catch(|| {
        let mut items = vec![];
        let mut hints = vec![];
        macro_rules! drive {
            ($it:expr, $conv:expr, $key:expr) => {{
                let mut it = $it;
                let mut guard = 0;
                if pre {
                    // no item has been returned yet: nothing may be omitted
                    it.skip_subtree();
                    if double {
                        it.skip_subtree();
                    }
                }
                loop {
                    guard += 1;
                    if guard > 100 {
                        panic!("traversal does not terminate");
                    }
                    hints.push(it.size_hint());
                    match it.next() {
                        None => break,
                        Some(x) => {
                            let k = $key(&x);
                            items.push($conv(&x));
                            if plan.contains(&k) {
                                it.skip_subtree();
                                if double {
                                    it.skip_subtree();
                                }
                            }
                        }
                    }
                }
            }};
        }
        match kind {
            Kind::Pre => drive!(
                DfsPre::iter(t, start),
                |x: &affinitree::tree::iter::DfsNodeData| (x.index, x.depth, x.n_remaining),
                |x: &affinitree::tree::iter::DfsNodeData| x.index
            ),
            Kind::Level => drive!(
                Bfs::iter(t, start),
                |x: &affinitree::tree::iter::DfsNodeData| (x.index, x.depth, x.n_remaining),
                |x: &affinitree::tree::iter::DfsNodeData| x.index
            ),
            Kind::Edge => drive!(
                DfsEdge::iter(t, start),
                |x: &affinitree::tree::iter::EdgeData| (x.src, x.label, x.dest),
                |x: &affinitree::tree::iter::EdgeData| x.dest
            ),
        }
        (items, hints)
    })
}

fn reference(a: &Adj, kind: Kind, start: usize, skip: &BTreeSet<usize>) -> Vec<(usize, usize, usize)> {
    match kind {
        Kind::Pre => a.pre(start, skip),
        Kind::Edge => a.edges(start, skip),
        Kind::Level => a.level(start, skip),
    }
}

fn item_key(kind: Kind, it: &(usize, usize, usize)) -> usize {
    match kind {
        Kind::Edge => it.2,
        _ => it.0,
    }
}

fn check_traversals<N, const K: usize>(t: &Tree<N, K>, a: &Adj, hist: &[Act], out: &mut CaseOut, max_plan: usize) {
    let rec = |extra: serde_json::Value| json!({"K": K, "history": hist.iter().map(|x| format!("{:?}", x)).collect::<Vec<_>>(), "nodes": format!("{:?}", a.nodes), "detail": extra});
    for &start in a.nodes.keys() {
        let sub = a.subtree(start);
        // skip plans: all subsets of the subtree's nodes up to size max_plan, the full set, and doubles
        // the third component asks for skip_subtree before the first next() (node traversals only: an edge traversal
        // has the start node as its implicit current item, so the call is not judged there)
        let mut plans: Vec<(BTreeSet<usize>, bool, bool)> = vec![(BTreeSet::new(), false, false), (BTreeSet::new(), false, true), (BTreeSet::new(), true, true)];
        for (i, &x) in sub.iter().enumerate() {
            plans.push(([x].into_iter().collect(), false, false));
            plans.push(([x].into_iter().collect(), true, false));
            plans.push(([x].into_iter().collect(), false, true));
            if max_plan >= 2 {
                for &y in sub.iter().skip(i + 1) {
                    plans.push(([x, y].into_iter().collect(), false, false));
                }
            }
        }
        if sub.len() > 2 {
            plans.push((sub.iter().cloned().collect(), false, false));
            plans.push((sub.iter().cloned().collect(), true, false));
        }
        for kind in [Kind::Pre, Kind::Edge, Kind::Level] {
            for (plan, double, pre) in &plans {
                if *pre && kind == Kind::Edge {
                    continue;
                }
                out.add("traversal_runs", 1);
                let exp = reference(a, kind, start, plan);
                let tagk = format!("{:?}", kind);
                let tagroot = if start == a.root { "root" } else { "inner" };
                let tagskip = if *pre { "before_first_next" } else if plan.is_empty() { "none" } else if *double { "double" } else { "single" };
                match real_run(t, kind, start, plan, *double, *pre) {
                    Err(msg) => {
                        out.violate(
                            Violation::new(format!("{tagk} traversal from {start} panicked: {msg}"), rec(json!({"start": start, "plan": plan, "double": double, "skip_before_first_next": pre})))
                                .tag("kind", "panic").tag("traversal", &tagk).tag("start", tagroot).tag("skip", tagskip),
                        );
                    }
                    Ok((items, hints)) => {
                        if items != exp {
                            let what = if items.iter().map(|x| item_key(kind, x)).collect::<Vec<_>>() != exp.iter().map(|x| item_key(kind, x)).collect::<Vec<_>>() {
                                "items"
                            } else if kind == Kind::Edge {
                                "edge_fields"
                            } else if items.iter().map(|x| x.1).ne(exp.iter().map(|x| x.1)) {
                                "depth"
                            } else {
                                "n_remaining"
                            };
                            out.violate(
                                Violation::new(
                                    format!("{tagk} from node {start}, skip {}after {:?}{}: got {:?}, expected {:?}", if *pre { "before the first next() and " } else { "" }, plan, if *double { " (twice)" } else { "" }, items, exp),
                                    rec(json!({"start": start, "plan": plan, "double": double, "skip_before_first_next": pre})),
                                )
                                .tag("kind", "stream").tag("what", what).tag("traversal", &tagk).tag("start", tagroot).tag("skip", tagskip),
                            );
                            continue;
                        }
                        // size_hint before the j-th next(): skips performed so far are those after items[..j]
                        for (j, (lo, hi)) in hints.iter().enumerate() {
                            let done: BTreeSet<usize> = items[..j.min(items.len())].iter().map(|x| item_key(kind, x)).filter(|k| plan.contains(k)).collect();
                            let total = reference(a, kind, start, &done).len();
                            let remaining = total - j.min(total);
                            let bad_lo = *lo > remaining;
                            let bad_hi = hi.map(|h| h < remaining).unwrap_or(false);
                            if bad_lo || bad_hi {
                                out.violate(
                                    Violation::new(
                                        format!("{tagk} from node {start}, skip after {:?}: size_hint ({lo},{:?}) before next #{j} but {remaining} items remain", plan, hi),
                                        rec(json!({"start": start, "plan": plan, "double": double, "position": j})),
                                    )
                                    .tag("kind", "size_hint").tag("bound", if bad_lo { "lower" } else { "upper" }).tag("traversal", &tagk).tag("start", tagroot).tag("skip", tagskip),
                                );
                                break;
                            }
                        }
                    }
                }
            }
        }
    }
}

fn check_metrics<N, const K: usize>(t: &Tree<N, K>, a: &Adj, hist: &[Act], out: &mut CaseOut) {
    let rec = || json!({"K": K, "history": hist.iter().map(|x| format!("{:?}", x)).collect::<Vec<_>>(), "nodes": format!("{:?}", a.nodes)});
    let mut fail = |what: &str, msg: String, out: &mut CaseOut| {
        out.violate(Violation::new(msg, rec()).tag("kind", "metric").tag("what", what));
    };
    let all: Vec<usize> = a.nodes.keys().cloned().collect();
    let leaves: Vec<usize> = a.nodes.iter().filter(|(_, n)| n.1.iter().all(|c| c.is_none())).map(|(i, _)| *i).collect();
    let decs: Vec<usize> = all.iter().cloned().filter(|i| !leaves.contains(i)).collect();
    let r = catch(|| {
        let mut errs: Vec<(&'static str, String)> = vec![];
        let ni: Vec<usize> = t.node_iter().map(|(i, _)| i).collect();
        if ni != all { errs.push(("node_iter", format!("{:?} vs {:?}", ni, all))); }
        let v: Vec<usize> = t.nodes().map(|n| n.idx).collect();
        if v != all { errs.push(("nodes", format!("{:?}", v))); }
        let v: Vec<usize> = t.node_indices().collect();
        if v != all { errs.push(("node_indices", format!("{:?}", v))); }
        let v: Vec<usize> = t.terminals().map(|n| n.idx).collect();
        if v != leaves { errs.push(("terminals", format!("{:?} vs {:?}", v, leaves))); }
        let v: Vec<usize> = t.terminal_indices().collect();
        if v != leaves { errs.push(("terminal_indices", format!("{:?}", v))); }
        let v: Vec<usize> = t.decisions().map(|n| n.idx).collect();
        if v != decs { errs.push(("decisions", format!("{:?} vs {:?}", v, decs))); }
        let v: Vec<usize> = t.decision_indices().collect();
        if v != decs { errs.push(("decision_indices", format!("{:?}", v))); }
        if t.num_terminals() != leaves.len() { errs.push(("num_terminals", format!("{}", t.num_terminals()))); }
        if t.len() != all.len() { errs.push(("len", format!("{}", t.len()))); }
        let mut es: Vec<(usize, usize, usize)> = t.edge_iter().map(|e| (e.source_idx, e.label, e.target_idx)).collect();
        es.sort();
        let mut exp_es = a.edges(a.root, &BTreeSet::new());
        exp_es.sort();
        if es != exp_es { errs.push(("edge_iter", format!("{:?} vs {:?}", es, exp_es))); }
        let de: Vec<(usize, usize, usize)> = t.dfs_edge_iter().map(|e| (e.src, e.label, e.dest)).collect();
        if de != a.edges(a.root, &BTreeSet::new()) { errs.push(("dfs_edge_iter", format!("{:?}", de))); }
        let di: Vec<usize> = t.dfs_iter().map(|d| d.index).collect();
        if di != a.subtree(a.root) { errs.push(("dfs_iter", format!("{:?}", di))); }
        for &i in &all {
            if t.num_nodes(i) != a.subtree(i).len() { errs.push(("num_nodes", format!("node {i}: {}", t.num_nodes(i)))); }
            if t.num_children(i) != a.kids(i).len() { errs.push(("num_children", format!("node {i}"))); }
            if t.is_leaf(i).ok() != Some(a.kids(i).is_empty()) { errs.push(("is_leaf", format!("node {i}"))); }
            // path_to_node
            let mut exp = vec![];
            let mut cur = i;
            while let Some(p) = a.nodes[&cur].0 {
                let l = a.nodes[&p].1.iter().position(|c| *c == Some(cur)).unwrap();
                exp.push((p, l));
                cur = p;
            }
            exp.reverse();
            match t.path_to_node(i) {
                Ok(p) if p == exp => {}
                o => errs.push(("path_to_node", format!("node {i}: {:?} vs {:?}", o.ok(), exp))),
            }
            for (l, c) in a.kids(i) {
                match t.child(i, l) { Ok(e) if e.target_idx == c && e.source_idx == i && e.label == l => {}, _ => errs.push(("child", format!("{i}/{l}"))) }
                match t.parent(c) { Ok(e) if e.target_idx == c && e.source_idx == i && e.label == l => {}, _ => errs.push(("parent", format!("{c}"))) }
            }
        }
        // depth (root = 0, as pinned by the repository's test_depth) and depth statistics over terminals
        let pre = a.pre(a.root, &BTreeSet::new());
        let maxd = pre.iter().map(|x| x.1).max().unwrap_or(0);
        if t.depth() != maxd { errs.push(("depth", format!("{} vs {}", t.depth(), maxd))); }
        let ld: Vec<f64> = pre.iter().filter(|x| leaves.contains(&x.0)).map(|x| x.1 as f64).collect();
        let (mn, mean, var, mx) = t.depth_stats();
        let emn = ld.iter().cloned().fold(f64::INFINITY, f64::min);
        let emx = ld.iter().cloned().fold(f64::NEG_INFINITY, f64::max);
        let emean = ld.iter().sum::<f64>() / ld.len() as f64;
        if mn != emn || mx != emx || (mean - emean).abs() > 1e-12 {
            errs.push(("depth_stats", format!("({mn},{mean},{var},{mx}) vs min {emn} mean {emean} max {emx}")));
        }
        if ld.len() >= 2 {
            let evar = ld.iter().map(|d| (d - emean) * (d - emean)).sum::<f64>() / (ld.len() as f64 - 1.0);
            if (var - evar).abs() > 1e-12 { errs.push(("depth_stats_variance", format!("{var} vs {evar}"))); }
        }
        errs
    });
    match r {
        Err(msg) => fail("panic", format!("metric computation panicked: {msg}"), out),
        Ok(errs) => {
            for (w, m) in errs {
                fail(w, format!("{w}: {m}"), out);
            }
        }
    }
}

/// The explored state is left behind in the arena by `add_root` and a new root with a chain of two nodes is put next
/// to it. On such an arena the clauses that only speak about "the subtree of a node" keep their meaning for every
/// node of both components: the three traversals from every start node return exactly that subtree in the documented
/// order, `num_nodes(i)` is its size, `path_to_node(i)` is the label path from the top of i's component. The
/// size_hint, index-order and whole-tree metric clauses are not applied here: they count the arena, which `add_root`
/// documents to contain unreachable nodes.
fn check_rerooted<const K: usize>(t0: &Tree<u8, K>, hist: &[Act], bound: usize, out: &mut CaseOut) {
    let mut t = t0.clone();
    let built = catch(|| {
        let r = t.add_root(9u8);
        let c = t.add_child_node(r, K - 1, 8u8).unwrap();
        t.add_child_node(c, 0, 7u8).unwrap();
        r
    });
    let rec = |a: Option<&Adj>| json!({"K": K, "history": hist.iter().map(|x| format!("{:?}", x)).collect::<Vec<_>>(), "then": "add_root; add_child_node(root, K-1); add_child_node(that, 0)", "nodes": a.map(|a| format!("{:?}", a.nodes))});
    let root = match built {
        Ok(r) => r,
        Err(m) => {
            out.violate(Violation::new(format!("add_root / add_child_node on an explored state panicked: {m}"), rec(None)).tag("kind", "rerooted").tag("what", "panic"));
            return;
        }
    };
    let a = adj(&t, bound + 3);
    out.add("rerooted_states", 1);
    if a.root != root || a.nodes.len() != t0.len() + 3 {
        out.violate(Violation::new(format!("after add_root the root is {} (returned {root}) and the arena holds {} nodes, expected {}", a.root, a.nodes.len(), t0.len() + 3), rec(Some(&a))).tag("kind", "rerooted").tag("what", "arena"));
        return;
    }
    let none = BTreeSet::new();
    for &i in a.nodes.keys() {
        for kind in [Kind::Pre, Kind::Edge, Kind::Level] {
            out.add("traversal_runs", 1);
            match real_run(&t, kind, i, &none, false, false) {
                Err(m) => out.violate(Violation::new(format!("{kind:?} from node {i} of a re-rooted arena panicked: {m}"), rec(Some(&a))).tag("kind", "rerooted").tag("what", "panic")),
                Ok((items, _)) => {
                    let exp = reference(&a, kind, i, &none);
                    if items != exp {
                        out.violate(Violation::new(format!("{kind:?} from node {i} of a re-rooted arena: {items:?}, expected {exp:?}"), rec(Some(&a))).tag("kind", "rerooted").tag("what", format!("{kind:?}")));
                    }
                }
            }
        }
        match catch(|| t.num_nodes(i)) {
            Ok(n) if n == a.subtree(i).len() => {}
            o => out.violate(Violation::new(format!("num_nodes({i}) on a re-rooted arena: {o:?}, the subtree has {} nodes", a.subtree(i).len()), rec(Some(&a))).tag("kind", "rerooted").tag("what", "num_nodes")),
        }
        let mut exp = vec![];
        let mut cur = i;
        while let Some(p) = a.nodes[&cur].0 {
            let l = a.nodes[&p].1.iter().position(|c| *c == Some(cur)).unwrap();
            exp.push((p, l));
            cur = p;
        }
        exp.reverse();
        match catch(|| t.path_to_node(i)) {
            Ok(Ok(p)) if p == exp => {}
            o => out.violate(Violation::new(format!("path_to_node({i}) on a re-rooted arena: {:?}, expected {exp:?}", o.map(|r| r.ok())), rec(Some(&a))).tag("kind", "rerooted").tag("what", "path_to_node")),
        }
    }
}

/// replay a history on an AffTree-valued arena (same index layout) and check PolyhedraIter::size_hint
fn check_polyiter(hist: &[Act], out: &mut CaseOut) {
    let aff = || AffContent::new(AffFunc::from_mats(ndarray::arr2(&[[1.0]]), ndarray::arr1(&[0.0])));
    let mut t: Tree<AffContent, 2> = Tree::with_root(aff(), 1);
    for a in hist {
        let _ = match a {
            Act::Add(p, l, _) => t.add_child_node(*p, *l, aff()).map(|_| ()).map_err(|_| ()),
            Act::Remove(p, l) => t.try_remove_child(*p, *l).map(|_| ()).map_err(|_| ()),
            Act::RemoveDesc(i) => t.remove_all_descendants(*i).map(|_| ()).map_err(|_| ()),
            Act::Merge(i, l) => t.merge_child_with_parent(*i, *l).map(|_| ()).map_err(|_| ()),
            Act::Update(..) => Ok(()),
        };
    }
    let n = t.len();
    let at = AffTree::<2>::from_tree(t, 1);
    let a = adj(&at.tree, n + hist.len() + 2);
    let exp = a.pre(a.root, &BTreeSet::new());
    // every single skip position
    let mut plans: Vec<Option<usize>> = vec![None];
    plans.extend(exp.iter().map(|x| Some(x.0)));
    for plan in plans {
        let r = catch(|| {
            let mut it = at.polyhedra_iter();
            let mut got = vec![];
            let mut hints = vec![];
            loop {
                hints.push(it.size_hint());
                match it.next() {
                    None => break,
                    Some((d, i, r, p)) => {
                        got.push((i, d, r, p.len()));
                        if Some(i) == plan {
                            it.skip_subtree();
                        }
                    }
                }
            }
            (got, hints)
        });
        out.add("traversal_runs", 1);
        let rec = || json!({"K": 2, "history": hist.iter().map(|x| format!("{:?}", x)).collect::<Vec<_>>(), "skip_after": plan});
        match r {
            Err(m) => out.violate(Violation::new(format!("PolyhedraIter panicked: {m}"), rec()).tag("kind", "panic").tag("traversal", "PolyhedraIter")),
            Ok((got, hints)) => {
                let skip: BTreeSet<usize> = plan.into_iter().collect();
                let e = a.pre(a.root, &skip);
                let ok = got.len() == e.len() && got.iter().zip(e.iter()).all(|(g, x)| g.0 == x.0 && g.1 == x.1 && g.2 == x.2 && g.3 == x.1);
                if !ok {
                    out.violate(Violation::new(format!("PolyhedraIter stream {:?} vs reference {:?}", got, e), rec()).tag("kind", "stream").tag("traversal", "PolyhedraIter"));
                    continue;
                }
                for (j, (lo, hi)) in hints.iter().enumerate() {
                    let done: BTreeSet<usize> = got[..j.min(got.len())].iter().map(|x| x.0).filter(|k| Some(*k) == plan).collect();
                    let total = a.pre(a.root, &done).len();
                    let remaining = total - j.min(total);
                    if *lo > remaining || hi.map(|h| h < remaining).unwrap_or(false) {
                        out.violate(
                            Violation::new(format!("PolyhedraIter::size_hint ({lo},{:?}) before next #{j} but {remaining} items remain", hi), rec())
                                .tag("kind", "size_hint").tag("traversal", "PolyhedraIter").tag("bound", if *lo > remaining { "lower" } else { "upper" }),
                        );
                        break;
                    }
                }
            }
        }
    }
}

fn run_k<const K: usize>(depth: usize, max_len: usize, max_plan: usize, rep: &mut Report) {
    let mut dummy = CaseOut::default();
    let ex = bfs::<K>(depth, max_len, &mut dummy, false);
    let bound = depth + 3;
    // (cases are state numbers; the states themselves are reached through a wrapper so that the exploration does not
    // depend on the subject type being Sync)
    let shared = crate::report::AssertSync(&ex.states);
    let numbers: Vec<usize> = (0..ex.states.len()).collect();
    let total = par_cases(&numbers, |_, i| {
        let sh = &shared;
        let (t, hist) = &sh.0[*i];
        let mut out = CaseOut::default();
        let a = adj(t, bound);
        out.add("states", 1);
        check_traversals(t, &a, hist, &mut out, max_plan);
        check_metrics(t, &a, hist, &mut out);
        check_rerooted::<K>(t, hist, bound, &mut out);
        if K == 2 {
            check_polyiter(hist, &mut out);
        }
        out
    });
    rep.set(&format!("arena_states_K{K}"), ex.states.len() as u64);
    if let Some((t, h)) = ex.states.last() {
        let a = adj(t, bound);
        rep.samples.push(json!({"K": K, "history": h.iter().map(|x| format!("{:?}", x)).collect::<Vec<_>>(), "nodes": format!("{:?}", a.nodes), "dfs_from_root": a.pre(a.root, &BTreeSet::new())}));
    }
    rep.absorb(total);
}

pub fn run(tier: Tier) -> Report {
    let mut rep = Report::new("C13", tier, "model_checking");
    let (d2, d3, ml, mp) = match tier {
        Tier::Quick => (7, 5, 6, 2),
        Tier::Thorough => (9, 7, 6, 2),
    };
    run_k::<2>(d2, ml, mp, &mut rep);
    run_k::<3>(d3, ml, mp, &mut rep);
    let runs = rep.coverage.get("traversal_runs").and_then(|v| v.as_u64()).unwrap_or(0);
    rep.set("transitions", runs);
    rep.set("traces_validated_against_impl", runs);
    rep.set("bound", format!("arena states reachable by <= {d2} (K=2) / {d3} (K=3) tree operations, len <= {ml}; every start node; skip plans: none, before the first next() of the node traversals (once, twice, combined with every single position), every single position (once and twice), every pair, all positions"));
    rep.assume("size_hint is judged against the number of items still to come if no further skip_subtree is called");
    rep.assume("depth of a single root is 0 (pinned by the repository's test_depth; the doc comment says 1)");
    rep
}
