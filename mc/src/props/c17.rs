//! C17 — predefined trees equal their mathematical definitions everywhere.
use super::common::*;
use crate::gen::{Aff, TSpec, TreeGen};
use crate::q::Q;
use crate::refnet::{RLayer, RefNet, Rows};
use crate::regions::{AffMap, Config, FnSide, Form};
use crate::report::{catch, par_cases, CaseOut, Report, Tier, Violation};
use crate::snap::{conform_face, snap, TreeSide};
use affinitree::distill::schema;
use affinitree::linalg::affine::Polytope;
use affinitree::pwl::afftree::AffTree;
use ndarray::{Array1, Array2};
use serde_json::{json, Value};

#[derive(Clone, Debug)]
pub enum Case {
    Relu(usize, usize),
    Leaky(usize, usize, f64),
    HardTanh(usize, usize, f64, f64),
    HardShrink(usize, usize, f64),
    HardSigmoid(usize, usize),
    Threshold(usize, usize, f64, f64),
    Argmax(usize),
    ClassChar(usize, usize),
    InfNorm(usize, Option<f64>, Option<f64>),
    FromPoly { rows: Vec<(Vec<f64>, f64)>, f_true: Aff, f_false: Option<Aff>, fortran: bool },
    /// `elim`: run infeasible_elimination between compose and remove_axes (arena with holes)
    Slice { tree: TSpec, refpt: Vec<Option<f64>>, elim: bool },
}

impl Case {
    fn describe(&self) -> Value {
        match self {
            Case::FromPoly { rows, f_true, f_false, fortran } => json!({"from_poly": {"rows": rows, "f_true": f_true.to_json(), "f_false": f_false.as_ref().map(|a| a.to_json()), "column_major": fortran}}),
            Case::Slice { tree, refpt, elim } => json!({"from_slice_compose_remove_axes": {"tree": tree.to_json(), "reference_point(null=NaN)": refpt, "infeasible_elimination_before_remove_axes": elim}}),
            o => json!(format!("{:?}", o)),
        }
    }
    fn name(&self) -> &'static str {
        match self {
            Case::Relu(..) => "partial_ReLU",
            Case::Leaky(..) => "partial_leaky_ReLU",
            Case::HardTanh(..) => "partial_hard_tanh",
            Case::HardShrink(..) => "partial_hard_shrink",
            Case::HardSigmoid(..) => "partial_hard_sigmoid",
            Case::Threshold(..) => "partial_threshold",
            Case::Argmax(..) => "argmax",
            Case::ClassChar(..) => "class_characterization",
            Case::InfNorm(..) => "inf_norm",
            Case::FromPoly { .. } => "from_poly",
            Case::Slice { .. } => "from_slice",
        }
    }
}

pub fn poly_grid(dim: usize, tier: Tier) -> Vec<Vec<(Vec<f64>, f64)>> {
    let mut out = vec![];
    if dim == 1 {
        let rows: Vec<(Vec<f64>, f64)> = vec![
            (vec![1.0], 1.0), (vec![-1.0], 0.0), (vec![1.0], -1.0), (vec![-1.0], 1.0), (vec![2.0], 1.0), (vec![0.0], 1.0), (vec![0.0], -1.0), (vec![0.0], 0.0),
            // a row that is not of unit length and whose scaled copy is not exact in f64
            (vec![3.0], 1.0),
            // one unit in the last place looser than the first row
            (vec![1.0], 1.0 + f64::EPSILON),
        ];
        for a in &rows {
            out.push(vec![a.clone()]);
            for b in &rows {
                out.push(vec![a.clone(), b.clone()]);
            }
        }
    } else {
        let rows: Vec<(Vec<f64>, f64)> = vec![
            (vec![1.0, 0.0], 1.0), (vec![-1.0, 0.0], 0.0), (vec![0.0, 1.0], 1.0), (vec![0.0, -1.0], 0.0),
            (vec![1.0, 1.0], 1.0), (vec![-1.0, -1.0], -1.0), (vec![1.0, -1.0], 0.0), (vec![0.0, 0.0], 0.0), (vec![0.0, 0.0], -1.0),
            // rows that are neither axis-parallel nor of unit length (their scaled copies are not exact in f64)
            (vec![3.0, 4.0], 5.0), (vec![-1.0, -2.0], 1.0),
            // one unit in the last place looser than the first row
            (vec![1.0, 0.0], 1.0 + f64::EPSILON),
        ];
        for (i, a) in rows.iter().enumerate() {
            out.push(vec![a.clone()]);
            for (j, b) in rows.iter().enumerate() {
                out.push(vec![a.clone(), b.clone()]);
                if tier == Tier::Thorough || (i + j) % 2 == 0 {
                    for c in rows.iter() {
                        out.push(vec![a.clone(), b.clone(), c.clone()]);
                    }
                }
            }
        }
    }
    out
}

pub fn cases(tier: Tier) -> Vec<Case> {
    let mut v = vec![];
    let maxdim = match tier { Tier::Quick => 4, Tier::Thorough => 5 };
    for dim in 1..=maxdim {
        for row in 0..dim {
            v.push(Case::Relu(dim, row));
            for a in [0.5, 0.0, -1.0, 2.0, 0.1, 0.01, 1.0] {
                v.push(Case::Leaky(dim, row, a));
            }
            for (lo, hi) in [(-1.0, 1.0), (0.0, 0.0), (-2.0, 0.5), (1.0, 1.0), (0.0, 6.0), (-0.5, -0.25), (0.1, 0.3)] {
                v.push(Case::HardTanh(dim, row, lo, hi));
            }
            for l in [0.0, 0.5, 1.0, 2.0, 0.1] {
                v.push(Case::HardShrink(dim, row, l));
            }
            v.push(Case::HardSigmoid(dim, row));
            for th in [0.0, 1.0, -0.5, 0.1] {
                for val in [0.0, 2.0, -1.0, 1.0, 0.1] {
                    v.push(Case::Threshold(dim, row, th, val));
                }
            }
        }
        let b = [None, Some(0.0), Some(1.0), Some(-1.0), Some(0.5)];
        for lo in b {
            for hi in b {
                if lo.is_none() && hi.is_none() {
                    continue;
                }
                v.push(Case::InfNorm(dim, lo, hi));
            }
        }
    }
    let maxam = match tier { Tier::Quick => 5, Tier::Thorough => 6 };
    for dim in 2..=maxam {
        v.push(Case::Argmax(dim));
        for c in 0..dim {
            v.push(Case::ClassChar(dim, c));
        }
    }
    // from_poly
    for dim in 1..=2usize {
        let maps: Vec<(Aff, Option<Aff>)> = if dim == 1 {
            vec![
                (Aff::identity(1), None),
                (Aff::row1(&[2.0], 1.0), Some(Aff::row1(&[0.0], -1.0))),
                (Aff::new(vec![vec![1.0], vec![-1.0]], vec![0.0, 0.5]), Some(Aff::new(vec![vec![0.0], vec![0.0]], vec![3.0, 3.0]))),
                // an else-branch that is nearly, but not exactly, the then-branch
                (Aff::row1(&[0.0], 1.0), Some(Aff::row1(&[0.0], 1.0 + f64::EPSILON))),
                (Aff::row1(&[1.0], 0.0), Some(Aff::row1(&[1.0], 2f64.powi(-60)))),
                (Aff::row1(&[1.0], 0.0), Some(Aff::row1(&[1.0 + f64::EPSILON], 0.0))),
            ]
        } else {
            vec![
                (Aff::identity(2), None),
                (Aff::row1(&[1.0, -1.0], 0.5), Some(Aff::row1(&[0.0, 0.0], 7.0))),
                (Aff::row1(&[1.0, 2.0], 0.0), None),
                (Aff::row1(&[0.0, 0.0], 1.0), Some(Aff::row1(&[0.0, 2f64.powi(-60)], 1.0))),
            ]
        };
        for rows in poly_grid(dim, tier) {
            for (ft, ff) in &maps {
                v.push(Case::FromPoly { rows: rows.clone(), f_true: ft.clone(), f_false: ff.clone(), fortran: false });
                if dim >= 2 && rows.len() >= 2 {
                    // the same with column-major storage of the polytope and of the functions
                    v.push(Case::FromPoly { rows: rows.clone(), f_true: ft.clone(), f_false: ff.clone(), fortran: true });
                }
            }
        }
    }
    // slicing
    let r1 = |a: &[f64], b: f64| Aff::row1(a, b);
    let g2 = TreeGen {
        k: 2,
        preds: vec![r1(&[1.0, 0.0], 0.0), r1(&[1.0, -1.0], 0.0), r1(&[0.0, 1.0], 1.0)],
        terms: vec![Aff::identity(2), r1(&[1.0, 1.0], 0.0), r1(&[0.0, -2.0], 1.0)],
        max_depth: 2,
        max_nodes: if tier == Tier::Quick { 5 } else { 7 },
        partial: true,
    };
    let trees: Vec<TSpec> = g2.all().into_iter().enumerate().filter(|(i, t)| t.n_nodes() <= 3 || i % 11 == 0).map(|(_, t)| t).collect();
    for t in &trees {
        // all terminals must share the output dimension for compose to be meaningful
        let mut od = vec![];
        fn collect(t: &TSpec, od: &mut Vec<usize>) {
            match t {
                TSpec::Leaf(a) => od.push(a.outdim()),
                TSpec::Dec(_, ch) => ch.iter().flatten().for_each(|c| collect(c, od)),
            }
        }
        collect(t, &mut od);
        if od.windows(2).any(|w| w[0] != w[1]) {
            continue;
        }
        for refpt in [
            vec![None, None], vec![Some(0.0), None], vec![None, Some(0.0)], vec![Some(1.0), None], vec![None, Some(-0.5)],
            vec![Some(0.5), Some(0.5)], vec![Some(0.0), Some(0.0)], vec![Some(2.0), Some(1.0)],
        ] {
            v.push(Case::Slice { tree: t.clone(), refpt: refpt.clone(), elim: false });
            if t.n_nodes() >= 3 {
                v.push(Case::Slice { tree: t.clone(), refpt, elim: true });
            }
        }
    }
    // three inputs: every NaN pattern with two value sets
    let g3 = TreeGen {
        k: 2,
        preds: vec![r1(&[1.0, 0.0, 0.0], 0.0), r1(&[0.0, 1.0, -1.0], 0.0), r1(&[1.0, 1.0, 1.0], 1.0)],
        terms: vec![Aff::identity(3), r1(&[1.0, -1.0, 2.0], 0.5)],
        max_depth: 2,
        max_nodes: 5,
        partial: true,
    };
    for (i, t) in g3.all().into_iter().enumerate() {
        if t.n_nodes() > 3 && i % (if tier == Tier::Quick { 7 } else { 2 }) != 0 {
            continue;
        }
        let mut od = vec![];
        fn collect3(t: &TSpec, od: &mut Vec<usize>) {
            match t {
                TSpec::Leaf(a) => od.push(a.outdim()),
                TSpec::Dec(_, ch) => ch.iter().flatten().for_each(|c| collect3(c, od)),
            }
        }
        collect3(&t, &mut od);
        if od.windows(2).any(|w| w[0] != w[1]) {
            continue;
        }
        for mask in 0..8u32 {
            for vals in [[0.0, 1.0, -0.5], [0.5, 0.5, 0.5]] {
                let refpt: Vec<Option<f64>> = (0..3).map(|j| if mask & (1 << j) != 0 { None } else { Some(vals[j]) }).collect();
                v.push(Case::Slice { tree: t.clone(), refpt: refpt.clone(), elim: false });
                if t.n_nodes() >= 3 && mask != 0 {
                    v.push(Case::Slice { tree: t.clone(), refpt, elim: true });
                }
            }
        }
    }
    v
}

fn qo(x: f64) -> Q {
    Q::from_f64(x)
}

fn poly_of(rows: &[(Vec<f64>, f64)], fortran: bool) -> Polytope {
    use ndarray::ShapeBuilder;
    let n = rows[0].0.len();
    let mut m = if fortran { Array2::<f64>::zeros((rows.len(), n).f()) } else { Array2::<f64>::zeros((rows.len(), n)) };
    let mut b = Array1::<f64>::zeros(rows.len());
    for (i, (a, bb)) in rows.iter().enumerate() {
        for j in 0..n {
            m[[i, j]] = a[j];
        }
        b[i] = *bb;
    }
    Polytope::from_mats(m, b)
}

pub fn rows_q(rows: &[(Vec<f64>, f64)]) -> Rows {
    rows.iter().map(|(a, b)| (a.iter().map(|x| qo(*x)).collect(), qo(*b))).collect()
}

pub fn run_case(c: &Case) -> CaseOut {
    run_case_mode(c, false)
}

/// `paths_only`: for trees that are too deep or too high-dimensional for the face enumeration, every root-to-terminal
/// path is visited instead: an interior point of its region (exact LP, then rounded to f64 and re-verified exactly)
/// must be routed to that terminal by the real evaluator and mapped as the definition says.
pub fn run_case_mode(c: &Case, paths_only: bool) -> CaseOut {
    let mut out = CaseOut::default();
    let rec = c.describe();
    let name = c.name();
    let mut cfg = Config::default();
    // build the real tree
    let built: Result<(AffTree<2>, Box<dyn crate::regions::Side>, usize), String> = catch(|| match c {
        Case::Relu(d, r) => (schema::partial_ReLU(*d, *r), Box::new(RefNet::new(*d, vec![RLayer::Relu(*r)])) as Box<dyn crate::regions::Side>, *d),
        Case::Leaky(d, r, a) => (schema::partial_leaky_ReLU(*d, *r, *a), Box::new(RefNet::new(*d, vec![RLayer::Leaky(*r, qo(*a))])) as _, *d),
        Case::HardTanh(d, r, lo, hi) => (schema::partial_hard_tanh(*d, *r, *lo, *hi), Box::new(RefNet::new(*d, vec![RLayer::HardTanh(*r, qo(*lo), qo(*hi))])) as _, *d),
        Case::HardShrink(d, r, l) => (schema::partial_hard_shrink(*d, *r, *l), Box::new(RefNet::new(*d, vec![RLayer::HardShrink(*r, qo(*l))])) as _, *d),
        Case::HardSigmoid(d, r) => (schema::partial_hard_sigmoid(*d, *r), Box::new(RefNet::new(*d, vec![RLayer::HardSigmoid(*r)])) as _, *d),
        Case::Threshold(d, r, t, v) => (schema::partial_threshold(*d, *r, *t, *v), Box::new(RefNet::new(*d, vec![RLayer::Threshold(*r, qo(*t), qo(*v))])) as _, *d),
        Case::Argmax(d) => (schema::argmax(*d), Box::new(RefNet::new(*d, vec![RLayer::Argmax])) as _, *d),
        Case::ClassChar(d, cl) => (schema::class_characterization(*d, *cl), Box::new(RefNet::new(*d, vec![RLayer::ClassChar(*cl)])) as _, *d),
        Case::InfNorm(d, lo, hi) => (schema::inf_norm(*d, *lo, *hi), Box::new(RefNet::new(*d, vec![RLayer::InfNorm(lo.map(qo), hi.map(qo))])) as _, *d),
        Case::FromPoly { rows, f_true, f_false, fortran } => {
            let n = rows[0].0.len();
            let ffr = f_false.as_ref().map(|a| if *fortran { a.to_real_f() } else { a.to_real() });
            let t = AffTree::<2>::from_poly(poly_of(rows, *fortran), if *fortran { f_true.to_real_f() } else { f_true.to_real() }, ffr.as_ref()).expect("from_poly");
            let rq = rows_q(rows);
            let ft = f_true.to_map();
            let ff = f_false.as_ref().map(|a| a.to_map());
            let side = FnSide(move |x: &[Q], g: &mut Vec<Form>| {
                let mut inside = true;
                for (a, b) in &rq {
                    g.push(Form::new(a.clone(), -b.clone()));
                    if &crate::q::dot(a, x) > b {
                        inside = false;
                        break;
                    }
                }
                Ok(if inside { Some(ft.clone()) } else { ff.clone() })
            });
            (t, Box::new(side) as _, n)
        }
        Case::Slice { tree, refpt, elim } => {
            let orig: AffTree<2> = tree.build::<2>();
            let so = snap(&orig);
            let n = refpt.len();
            let rp = Array1::from(refpt.iter().map(|v| v.unwrap_or(f64::NAN)).collect::<Vec<_>>());
            let mut s = AffTree::<2>::from_slice(&rp);
            s.compose::<false, false>(&orig);
            if *elim {
                s.infeasible_elimination();
            }
            let mask = Array1::from(refpt.iter().map(|v| v.is_none()).collect::<Vec<_>>());
            s.remove_axes(&mask).expect("remove_axes");
            if *elim {
                // the sliced tree must be usable like any other: on a copy, one more layer is composed and pruned (the
                // caches left by the first pruning run live in the reduced space now); a panic is reported below
                let od = s.tree.terminals().next().map(|t| t.value.aff.outdim()).unwrap_or(0);
                if od >= 1 {
                    let mut probe = s.clone();
                    probe.compose::<false, false>(&schema::partial_ReLU(od, 0));
                    probe.infeasible_elimination();
                    probe.compose::<true, false>(&schema::partial_ReLU(od, od - 1));
                }
            }
            // embedding of the kept axes
            let kept: Vec<usize> = (0..n).filter(|i| refpt[*i].is_none()).collect();
            let k = kept.len();
            let mut m = vec![vec![Q::ZERO; k]; n];
            let mut cvec = vec![Q::ZERO; n];
            for (j, &i) in kept.iter().enumerate() {
                m[i][j] = Q::ONE;
            }
            for i in 0..n {
                if let Some(v) = refpt[i] {
                    cvec[i] = qo(v);
                }
            }
            let emb = AffMap { m, c: cvec };
            let side = FnSide(move |x: &[Q], g: &mut Vec<Form>| Ok(so.route(&emb, k, x, g)?.map(|(_, m)| m)));
            (s, Box::new(side) as _, k)
        }
    });
    out.add("real_executions", 1);
    let (tree, rf, n) = match built {
        Ok(x) => x,
        Err(msg) => {
            out.violate(Violation::new(format!("{name} panicked: {msg}"), rec).tag("kind", "panic").tag("generator", name));
            return out;
        }
    };
    if let Case::HardSigmoid(..) = c {
        // 1/6 is not representable: slope compared to one unit in the last place, breakpoints (+-3) are exact
        cfg.coef_tol = Some(Q::from_f64(f64::EPSILON));
    }
    let s = snap(&tree);
    if s.in_dim != n {
        out.violate(Violation::new(format!("{name}: in_dim {} but expected {n}", s.in_dim), rec.clone()).tag("kind", "in_dim").tag("generator", name));
        return out;
    }
    if n == 0 {
        // everything sliced away: a single point domain
        let mut g = vec![];
        let a = s.route(&AffMap { m: vec![], c: vec![] }, 0, &[], &mut g);
        let b = rf.eval(&[], &mut g);
        let same = match (&a, &b) {
            (Ok(None), Ok(None)) => true,
            (Ok(Some((_, x))), Ok(Some(y))) => x == y,
            _ => false,
        };
        out.add("states", 1);
        out.add("transitions", 1);
        if !same {
            out.violate(Violation::new(format!("{name}: zero-dimensional slice differs"), rec).tag("kind", "function").tag("generator", name));
        }
        return out;
    }
    if paths_only {
        let terms = s.terminals();
        out.add("paths_total", terms.len() as u64);
        for t in terms {
            let rows = match s.path_rows(t) {
                Ok(r) => r,
                Err(e) => {
                    out.violate(Violation::new(format!("{name}: path of terminal {t} cannot be read: {e}"), rec.clone()).tag("kind", "malformed").tag("generator", name));
                    continue;
                }
            };
            let w = match crate::lp::strict_feasible(n, &[], &rows) {
                Some(w) => w,
                None => {
                    out.add("paths_without_interior", 1);
                    continue;
                }
            };
            // round to f64 and make sure the rounded point is still strictly inside
            let xq: Vec<Q> = w.iter().map(|v| Q::from_f64(v.to_f64())).collect();
            if !rows.iter().all(|(a, b)| &crate::q::dot(a, &xq) < b) {
                out.add("paths_witness_not_representable", 1);
                continue;
            }
            out.add("paths_visited", 1);
            out.add("states", 1);
            out.add("transitions", 1);
            match crate::snap::conform(&tree, &s, &xq, false) {
                Ok(true) => out.add("traces_validated_against_impl", 1),
                Ok(false) => {}
                Err(e) => out.violate(Violation::new(format!("{name}: real evaluator disagrees with documented routing on the path to terminal {t}: {e}"), rec.clone()).tag("kind", "conformance").tag("generator", name)),
            }
            let mut g = vec![];
            let got = s.route(&AffMap::identity(n), n, &xq, &mut g).map(|o| o.map(|(_, m)| m.apply(&xq)));
            let exp = rf.eval(&xq, &mut g).map(|o| o.map(|m| m.apply(&xq)));
            if got != exp {
                out.violate(
                    Violation::new(format!("{name}: on the path to terminal {t} the tree gives {:?}, the definition {:?}", got.map(|o| o.map(|v| crate::q::fmt_vec(&v))), exp.map(|o| o.map(|v| crate::q::fmt_vec(&v)))), rec.clone())
                        .tag("kind", "function").tag("generator", name).tag("where", "deep_path"),
                );
            }
        }
        return out;
    }
    let imp = TreeSide(&s);
    let mut conf = 0u64;
    let mut conf_err = None;
    // (values at points next to a bias of 1 + 2^-52 are not exactly representable)
    let fine = |a: &Aff| a.mat.iter().flatten().chain(a.bias.iter()).any(|v| (*v * 1024.0).fract() != 0.0);
    let ulp_rows = matches!(c, Case::FromPoly { rows, f_true, f_false, .. } if rows.iter().any(|(_, b)| (*b * 1024.0).fract() != 0.0) || fine(f_true) || f_false.as_ref().map(|f| fine(f)).unwrap_or(false));
    let exact_vals = !matches!(c, Case::HardSigmoid(..)) && !ulp_rows;
    let o = refine(n, &imp, rf.as_ref(), &cfg, &mut out, &mut |face, _, _| {
        let (n, e) = conform_face(&tree, &s, face, exact_vals);
        conf += n;
        if let Some(e) = e {
            conf_err = Some(e)
        }
    });
    out.add("traces_validated_against_impl", conf);
    if let Some(e) = conf_err {
        out.violate(Violation::new(format!("real evaluator disagrees with documented routing: {e}"), rec.clone()).tag("kind", "conformance"));
    }
    for m in &o.mismatches {
        let mut r = json!({"case": rec.clone(), "mismatch": m.to_json(), "arena": s.to_json()});
        let boundary = m.face.n_eq() > 0;
        r["on_boundary"] = json!(boundary);
        out.violate(
            Violation::new(format!("{name} {:?}: {}", c, mismatch_summary(m)), r)
                .tag("kind", "function")
                .tag("generator", name)
                .tag("where", if boundary { "breakpoint" } else { "open_region" }),
        );
    }
    if out.sample.is_none() {
        out.sample = Some(json!({"case": rec, "faces": o.stats.faces, "nodes": s.nodes.len()}));
    }
    out
}

pub fn run(tier: Tier) -> Report {
    let mut rep = Report::new("C17", tier, "model_checking");
    let cs = cases(tier);
    rep.set("programs", cs.len() as u64);
    let total = par_cases(&cs, |_, c| run_case(c));
    rep.absorb(total);
    // chain-shaped trees with more than 64 levels: every root-to-terminal path instead of every face
    let deep: Vec<Case> = {
        let mut v = vec![Case::ClassChar(70, 0), Case::ClassChar(70, 69), Case::ClassChar(66, 33), Case::InfNorm(40, Some(-1.0), Some(2.0)), Case::InfNorm(70, None, Some(1.0)), Case::InfNorm(70, Some(0.5), None)];
        let rows1: Vec<(Vec<f64>, f64)> = (0..70).map(|k| (vec![1.0], 100.0 - k as f64)).collect();
        let rows2: Vec<(Vec<f64>, f64)> = (0..72).map(|k| (vec![1.0, (k as f64 - 36.0) / 8.0], 50.0 + (k % 7) as f64)).collect();
        v.push(Case::FromPoly { rows: rows1, f_true: Aff::row1(&[1.0], 0.0), f_false: Some(Aff::row1(&[0.0], 5.0)), fortran: false });
        v.push(Case::FromPoly { rows: rows2, f_true: Aff::identity(2), f_false: None, fortran: false });
        v
    };
    rep.set("deep_chain_programs", deep.len() as u64);
    let td = par_cases(&deep, |_, c| run_case_mode(c, true));
    rep.absorb(td);
    rep.set("bound", match tier {
        Tier::Quick => "activation generators dims 1..4 x every row x parameter grids; argmax/class dims 2..5; inf_norm bound grid; from_poly over 1-2 dim polytopes with <=3 rows incl. zero rows; from_slice/compose/remove_axes over 2-dim trees with <=5 nodes x 8 NaN patterns",
        Tier::Thorough => "same with dims 1..4, argmax/class 2..5, full 3-row polytope grid, trees with <= 7 nodes (dims 1..5, argmax 2..6)",
    });
    rep.assume("textbook definitions: leaky: x>0?x:alpha*x; hard_tanh: clamp; hard_shrink: |x|>lambda?x:0; hard_sigmoid: 0 / x/6+1/2 / 1 with breakpoints -3,3; threshold: x>theta?x:value; argmax: first maximal index");
    rep.assume("parameters are the f64 values passed in (0.1 means the double 0.1); only 1/6 in hard_sigmoid is compared to 1 ulp");
    rep
}
