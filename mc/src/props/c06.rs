//! C06 — infeasible-path elimination is effective and idempotent (total trees).
use super::common::*;
use crate::gen::{Aff, TreeGen};
use crate::hist::{GSpec, Init, Op};
use crate::lp::{thickness, Thickness};
use crate::q::Q;
use crate::report::{catch, par_cases, CaseOut, Report, Tier, Violation};
use crate::snap::{snap, Snap};
use serde_json::json;

#[derive(Clone, Debug)]
pub enum Case {
    Hist { init: Init, ops: Vec<Op> },
    Net(super::c01::Net),
}

fn r1(a: &[f64], b: f64) -> Aff {
    Aff::row1(a, b)
}

fn total_ops(d: usize) -> Vec<Op> {
    let mut gs: Vec<GSpec> = if d == 1 {
        vec![
            GSpec::Relu(0), GSpec::Leaky(0, 0.5), GSpec::HardTanh(0), GSpec::HardShrink(0, 1.0), GSpec::Threshold(0, 0.0, 2.0),
            GSpec::FromPoly(vec![(vec![1.0], 1.0), (vec![-1.0], 1.0)], true),
            GSpec::FromPoly(vec![(vec![1.0], 0.0), (vec![-1.0], -1.0)], true),
        ]
    } else {
        vec![
            GSpec::Relu(0), GSpec::Relu(1), GSpec::HardTanh(0), GSpec::HardTanh(1), GSpec::Leaky(1, -1.0), GSpec::Argmax, GSpec::ClassChar(0),
            GSpec::FromPoly(vec![(vec![1.0, 0.0], 1.0), (vec![-1.0, 0.0], 1.0), (vec![0.0, 1.0], 1.0)], true),
        ]
    };
    gs.push(GSpec::Eliminated(Box::new(GSpec::HardTanh(0))));
    let mut ops = vec![Op::Elim];
    for g in gs.drain(..) {
        ops.push(Op::Compose(g, false));
    }
    let affs: Vec<Aff> = if d == 1 {
        vec![r1(&[-1.0], 0.0), r1(&[2.0], -1.0), r1(&[1.0], 1.0), Aff::new(vec![vec![1.0], vec![-1.0]], vec![0.0, 1.0])]
    } else {
        vec![
            Aff::new(vec![vec![0.0, 1.0], vec![1.0, 0.0]], vec![0.0, 0.0]),
            Aff::new(vec![vec![1.0, 1.0], vec![1.0, -1.0]], vec![0.0, 1.0]),
            r1(&[1.0, -1.0], 0.0),
        ]
    };
    for a in affs {
        ops.push(Op::Apply(a));
    }
    ops
}

pub fn cases(tier: Tier) -> Vec<Case> {
    let mut out = vec![];
    let maxlen = match tier { Tier::Quick => 5, Tier::Thorough => 6 };
    let mut inits = vec![
        Init::FromAff(r1(&[1.0], 0.0)),
        Init::FromAff(r1(&[-2.0], 1.0)),
        Init::FromAff(Aff::new(vec![vec![1.0], vec![-1.0]], vec![0.0, 1.0])),
        Init::FromAff(Aff::new(vec![vec![1.0], vec![1.0]], vec![0.0, -1.0])),
        Init::FromAff(Aff::identity(2)),
        Init::FromAff(Aff::new(vec![vec![1.0, 1.0], vec![1.0, -1.0]], vec![0.0, 0.0])),
        Init::FromAff(Aff::new(vec![vec![1.0, 0.0], vec![1.0, 0.0]], vec![0.0, -1.0])),
        Init::FromAff(Aff::new(vec![vec![1.0, -1.0], vec![-1.0, 1.0]], vec![0.0, 0.0])),
    ];
    if tier == Tier::Thorough {
        inits.push(Init::FromAff(Aff::new(vec![vec![2.0, 1.0], vec![0.5, -1.0]], vec![-1.0, 0.5])));
    }
    for init in inits {
        fn rec(init: &Init, d: usize, ops: &mut Vec<Op>, lim: usize, out: &mut Vec<Case>) {
            if ops.last() == Some(&Op::Elim) {
                out.push(Case::Hist { init: init.clone(), ops: ops.clone() });
            }
            if ops.len() == lim {
                return;
            }
            for op in total_ops(d) {
                if !op.fits(d) || (op == Op::Elim && ops.last() == Some(&Op::Elim)) {
                    continue;
                }
                let nd = op.out_dim(d);
                if nd > 2 {
                    continue;
                }
                // the last slot is only useful for an elimination
                if ops.len() + 1 == lim && op != Op::Elim {
                    continue;
                }
                ops.push(op);
                rec(init, nd, ops, lim, out);
                ops.pop();
            }
        }
        rec(&init, init.out_dim(), &mut vec![], maxlen, &mut out);
    }
    // total generator trees with infeasible paths in every position
    let g1 = TreeGen {
        k: 2,
        preds: vec![r1(&[1.0], 0.0), r1(&[1.0], 1.0), r1(&[-1.0], -2.0), r1(&[-1.0], 0.0)],
        terms: vec![r1(&[1.0], 0.0), r1(&[0.0], 1.0)],
        max_depth: 3,
        max_nodes: if tier == Tier::Quick { 9 } else { 11 },
        partial: false,
    };
    let keep = if tier == Tier::Quick { 2 } else { 1 };
    for (i, t) in g1.all().into_iter().enumerate() {
        if t.n_nodes() <= 5 || i % keep == 0 {
            out.push(Case::Hist { init: Init::Spec(t.clone()), ops: vec![Op::Elim] });
            if t.n_nodes() >= 5 && i % 4 == 0 {
                // a root cache holding several user-stored sample inputs (all valid witnesses of the root)
                out.push(Case::Hist { init: Init::Seeded(Box::new(Init::Spec(t.clone())), vec![vec![-3.0], vec![-1.0], vec![0.5], vec![5.0]]), ops: vec![Op::Elim] });
                // ... or marked Feasible without any witness
                out.push(Case::Hist { init: Init::Seeded(Box::new(Init::Spec(t)), vec![]), ops: vec![Op::Elim] });
            }
        }
    }
    let g2 = TreeGen {
        k: 2,
        preds: vec![r1(&[1.0, 0.0], 0.0), r1(&[1.0, -1.0], 0.0), r1(&[-1.0, 0.0], -1.0), r1(&[0.0, 1.0], 0.0)],
        terms: vec![Aff::identity(2), r1(&[1.0, 1.0], 0.0)].into_iter().take(1).collect(),
        max_depth: 3,
        max_nodes: if tier == Tier::Quick { 9 } else { 11 },
        partial: false,
    };
    for (i, t) in g2.all().into_iter().enumerate() {
        if t.n_nodes() <= 5 || i % (keep * 3) == 0 {
            out.push(Case::Hist { init: Init::Spec(t.clone()), ops: vec![Op::Elim] });
            if t.n_nodes() >= 5 && i % 4 == 0 {
                out.push(Case::Hist { init: Init::Seeded(Box::new(Init::Spec(t.clone())), vec![vec![-1.0, -1.0], vec![2.0, -1.0], vec![-1.0, 2.0], vec![2.0, 1.0]]), ops: vec![Op::Elim] });
                out.push(Case::Hist { init: Init::Seeded(Box::new(Init::Spec(t.clone())), vec![]), ops: vec![Op::Elim] });
                // slicing with remove_axes (the removed coordinate is fixed to 0) between or before eliminations
                for keep_first in [true, false] {
                    out.push(Case::Hist { init: Init::Spec(t.clone()), ops: vec![Op::Elim, Op::RemoveAxes(vec![keep_first, !keep_first]), Op::Elim] });
                    out.push(Case::Hist { init: Init::Spec(t.clone()), ops: vec![Op::RemoveAxes(vec![keep_first, !keep_first]), Op::Elim] });
                }
            }
        }
    }
    // trees over R^0 (every axis sliced away): predicates 0 <= b, all total trees with <= 7 nodes
    {
        let z = |b: f64| Aff::with_indim(vec![vec![]], vec![b], 0);
        let g0 = TreeGen { k: 2, preds: vec![z(-1.0), z(0.0), z(1.0)], terms: vec![z(1.0), z(2.0)], max_depth: 3, max_nodes: 7, partial: false };
        for t in g0.all() {
            out.push(Case::Hist { init: Init::Spec(t), ops: vec![Op::Elim] });
        }
    }
    // nearly coincident parallel facets at a large offset: the "both inactive" region of the two neurons
    // B - x and x - (B - g) is empty by the gap g (robustly empty for g > 2e-6), far from the origin
    for b in [128.0f64, 1024.0] {
        for g in [2f64.powi(-17), 2f64.powi(-14), 2f64.powi(-10)] {
            for flip in [false, true] {
                let a = if flip { Aff::new(vec![vec![1.0], vec![-1.0]], vec![-(b - g), b]) } else { Aff::new(vec![vec![-1.0], vec![1.0]], vec![b, -(b - g)]) };
                let a2 = Aff::new(vec![vec![-1.0, 0.0], vec![1.0, 0.0]], vec![b, -(b - g)]);
                for init in [Init::FromAff(a.clone()), Init::FromAff(a2.clone())] {
                    out.push(Case::Hist { init: init.clone(), ops: vec![Op::Compose(GSpec::Relu(0), false), Op::Compose(GSpec::Relu(1), false), Op::Elim] });
                    out.push(Case::Hist { init: init.clone(), ops: vec![Op::Compose(GSpec::Relu(0), false), Op::Elim, Op::Compose(GSpec::Relu(1), false), Op::Elim] });
                    out.push(Case::Hist { init, ops: vec![Op::Compose(GSpec::Relu(1), false), Op::Elim, Op::Compose(GSpec::Relu(0), false), Op::Elim] });
                }
            }
        }
    }
    // distilled activation-only networks (clause 4)
    use super::c01::{Act, Family};
    let fams = match tier {
        Tier::Quick => vec![
            Family { n: 1, widths: vec![2], ident: true, values: vec![1.0, -1.0, 2.0], acts: vec![Act::Relu, Act::Leaky(0.5)], heads: false, pres: vec![], budget: 4 },
            Family { n: 2, widths: vec![2], ident: true, values: vec![1.0, -1.0], acts: vec![Act::Relu, Act::Leaky(0.5)], heads: false, pres: vec![], budget: 4 },
            Family { n: 1, widths: vec![2, 1], ident: true, values: vec![1.0, -1.0], acts: vec![Act::Relu], heads: false, pres: vec![], budget: 4 },
            Family { n: 2, widths: vec![2, 2], ident: true, values: vec![-1.0], acts: vec![Act::Relu], heads: false, pres: vec![], budget: 4 },
        ],
        Tier::Thorough => vec![
            Family { n: 1, widths: vec![2], ident: true, values: vec![1.0, -1.0, 2.0, 0.5], acts: vec![Act::Relu, Act::Leaky(0.5)], heads: false, pres: vec![], budget: 5 },
            Family { n: 2, widths: vec![2], ident: true, values: vec![1.0, -1.0, 2.0], acts: vec![Act::Relu, Act::Leaky(0.5)], heads: false, pres: vec![], budget: 5 },
            Family { n: 1, widths: vec![3], ident: true, values: vec![1.0, -1.0], acts: vec![Act::Relu], heads: false, pres: vec![], budget: 5 },
            Family { n: 1, widths: vec![2, 1], ident: true, values: vec![1.0, -1.0, 2.0], acts: vec![Act::Relu], heads: false, pres: vec![], budget: 5 },
            Family { n: 2, widths: vec![2, 2], ident: true, values: vec![-1.0, 2.0], acts: vec![Act::Relu], heads: false, pres: vec![], budget: 5 },
        ],
    };
    for f in fams {
        for net in f.enumerate() {
            if net.blocks.iter().any(|b| b.acts.iter().any(|a| *a != Act::None)) {
                out.push(Case::Net(net));
            }
        }
    }
    out
}

/// clauses (1) and (2) on the snapshot of an eliminated total tree
fn effective(s: &Snap) -> Vec<(String, String)> {
    let mut errs = vec![];
    for (i, n) in &s.nodes {
        if *i == s.root {
            continue;
        }
        let rows = match s.path_rows(*i) {
            Ok(r) => r,
            Err(e) => {
                errs.push(("malformed".into(), e));
                continue;
            }
        };
        let th = thickness(s.in_dim, &rows, &delta());
        if th == Thickness::RobustEmpty {
            errs.push(("kept_empty_node".into(), format!("node {i} survives although its path region is empty by more than 1e-7")));
        }
        if !n.isleaf && n.n_children() == 1 && th == Thickness::Fat {
            errs.push(("single_branch_decision".into(), format!("decision {i} is left with a single branch")));
        }
    }
    errs
}

/// reference count of activation patterns: (fat patterns, not robustly empty patterns)
fn pattern_counts(net: &super::c01::Net) -> (usize, usize) {
    use super::c01::Act;
    use crate::regions::AffMap;
    // depth-first over activation decisions in layer order
    fn rec(net: &super::c01::Net, bi: usize, ai: usize, cur: AffMap, rows: &mut Vec<(Vec<Q>, Q)>, fat: &mut usize, nre: &mut usize) {
        let n = net.n;
        if bi == net.blocks.len() {
            match thickness(n, rows, &delta()) {
                Thickness::Fat => {
                    *fat += 1;
                    *nre += 1;
                }
                Thickness::Thin => *nre += 1,
                Thickness::RobustEmpty => {}
            }
            return;
        }
        let b = &net.blocks[bi];
        let mut cur = cur;
        if ai == 0 {
            let indim = b.w.first().map(|r| r.len()).unwrap_or(0);
            cur = Aff::with_indim(b.w.clone(), b.b.clone(), indim).to_map().after(&cur, n);
        }
        if ai == b.acts.len() {
            return rec(net, bi + 1, 0, cur, rows, fat, nre);
        }
        let i = if b.rev { b.acts.len() - 1 - ai } else { ai };
        match b.acts[i] {
            Act::None => rec(net, bi, ai + 1, cur, rows, fat, nre),
            Act::Relu | Act::Leaky(_) => {
                let f = cur.row(i);
                // inactive: f <= 0
                rows.push((f.a.clone(), -f.c.clone()));
                let mut c1 = cur.clone();
                let alpha = if let Act::Leaky(a) = b.acts[i] { Q::from_f64(a) } else { Q::ZERO };
                c1.m[i] = c1.m[i].iter().map(|v| v * &alpha).collect();
                c1.c[i] = &c1.c[i] * &alpha;
                rec(net, bi, ai + 1, c1, rows, fat, nre);
                rows.pop();
                // active: f >= 0
                rows.push((f.a.iter().map(|v| -v).collect(), f.c.clone()));
                rec(net, bi, ai + 1, cur, rows, fat, nre);
                rows.pop();
            }
            _ => unreachable!("only ReLU-like activations in clause 4"),
        }
    }
    let (mut fat, mut nre) = (0, 0);
    rec(net, 0, 0, crate::regions::AffMap::identity(net.n), &mut vec![], &mut fat, &mut nre);
    (fat, nre)
}

pub fn run_case(c: &Case) -> CaseOut {
    let mut out = CaseOut::default();
    match c {
        Case::Hist { init, ops } => {
            let rec = || json!({"init": init.to_json(), "ops": ops.iter().map(|o| o.to_json()).collect::<Vec<_>>()});
            let mut t = init.build();
            let mut d = init.out_dim();
            for op in ops {
                out.add("real_executions", 1);
                if let Err(m) = op.run(&mut t, d) {
                    out.violate(Violation::new(format!("{} panicked: {m}", op.name()), rec()).tag("kind", "panic"));
                    return out;
                }
                d = op.out_dim(d);
            }
            let s1 = snap(&t);
            out.add("states", 1);
            if let Err((tag, msg)) = well_formed(&s1, None) {
                let mut r = rec();
                r["arena_after"] = s1.to_json();
                out.violate(Violation::new(format!("after the history the tree is malformed: {msg}"), r).tag("kind", "malformed").tag("what", tag));
                return out;
            }
            for (tag, msg) in super::c04::cache_sound(&s1).into_iter().take(1) {
                let mut r = rec();
                r["arena_after"] = s1.to_json();
                out.violate(Violation::new(format!("after infeasible_elimination: {msg}"), r).tag("kind", "cache").tag("what", tag));
            }
            for (tag, msg) in effective(&s1).into_iter().take(2) {
                let mut r = rec();
                r["arena_after"] = s1.to_json();
                out.violate(Violation::new(format!("after infeasible_elimination: {msg}"), r).tag("kind", "effective").tag("what", tag));
            }
            let mut t2 = t.clone();
            out.add("real_executions", 1);
            out.add("transitions", ops.len() as u64 + 1);
            match catch(|| t2.infeasible_elimination()) {
                Err(m) => out.violate(Violation::new(format!("second elimination panicked: {m}"), rec()).tag("kind", "panic")),
                Ok(pc) => {
                    out.add("second_run_lps", pc.lps_solved as u64);
                    let s2 = snap(&t2);
                    if s2 != s1 {
                        let what = if s2.nodes.len() != s1.nodes.len() {
                            "node_set"
                        } else if s2.nodes.iter().zip(s1.nodes.iter()).any(|(a, b)| a.1.state != b.1.state) && s2.nodes.iter().zip(s1.nodes.iter()).all(|(a, b)| a.0 == b.0 && a.1.mat == b.1.mat && a.1.children == b.1.children) {
                            "cached_states"
                        } else {
                            "structure"
                        };
                        let mut r = rec();
                        r["arena_after_first"] = s1.to_json();
                        r["arena_after_second"] = s2.to_json();
                        out.violate(Violation::new(format!("a second infeasible_elimination changed the tree ({what}): {} -> {} nodes", s1.nodes.len(), s2.nodes.len()), r).tag("kind", "idempotence").tag("what", what));
                    }
                }
            }
            if out.sample.is_none() && ops.len() >= 3 {
                out.sample = Some(json!({"history": rec(), "nodes_after": s1.nodes.len()}));
            }
        }
        Case::Net(net) => {
            use affinitree::distill::builder::afftree_from_layers;
            out.add("real_executions", 1);
            out.add("transitions", 1);
            let layers = net.layers();
            match catch(|| afftree_from_layers(net.n, &layers, None)) {
                Err(m) => out.violate(Violation::new(format!("distillation panicked: {m}"), net.to_json()).tag("kind", "panic")),
                Ok(t) => {
                    let s = snap(&t);
                    out.add("states", 1);
                    if let Err((tag, msg)) = well_formed(&s, None) {
                        out.violate(Violation::new(format!("distilled tree is malformed: {msg}"), json!({"network": net.to_json(), "arena": s.to_json()})).tag("kind", "malformed").tag("what", tag));
                        return out;
                    }
                    for (tag, msg) in super::c04::cache_sound(&s).into_iter().take(1) {
                        out.violate(Violation::new(format!("distilled tree: {msg}"), json!({"network": net.to_json(), "arena": s.to_json()})).tag("kind", "cache").tag("what", tag));
                    }
                    let (fat, nre) = pattern_counts(net);
                    let nt = s.terminals().len();
                    out.add("networks_counted", 1);
                    if nt < fat || nt > nre {
                        out.violate(
                            Violation::new(format!("distilled tree has {nt} terminals; full-dimensional activation regions: {fat}, non-empty closed ones: {nre}"), json!({"network": net.to_json(), "arena": s.to_json()}))
                                .tag("kind", "terminal_count").tag("what", if nt < fat { "too_few" } else { "too_many" }),
                        );
                    }
                    for (tag, msg) in effective(&s).into_iter().take(1) {
                        out.violate(Violation::new(format!("distilled tree: {msg}"), json!({"network": net.to_json(), "arena": s.to_json()})).tag("kind", "effective").tag("what", tag));
                    }
                }
            }
        }
    }
    out
}

pub fn run(tier: Tier) -> Report {
    set_delta(1e-7);
    let mut rep = Report::new("C06", tier, "model_checking");
    let cs = cases(tier);
    rep.set("programs", cs.len() as u64);
    let total = par_cases(&cs, |_, c| run_case(c));
    rep.absorb(total);
    let tr = rep.coverage.get("real_executions").and_then(|v| v.as_u64()).unwrap_or(0);
    rep.set("traces_validated_against_impl", tr);
    rep.set("bound", match tier {
        Tier::Quick => "un-pruned pipelines from_aff(A) . (compose(schema) | apply_func | eliminate)* of <= 5 steps ending in an elimination (8 roots, 7-8 total schemas per dimension, 3-4 maps); total generator trees with <= 9 nodes over parallel/concurrent predicates; ReLU/leaky networks with <= 4 deviations for the terminal-count clause",
        Tier::Thorough => "pipelines of <= 6 steps (9 roots); generator trees with <= 11 nodes; networks with <= 5 deviations",
    });
    rep.assume("'empty by more than tolerance' = no point within 1e-7*max(1,|row|_1) of satisfying all path rows; a single-branch decision is judged only if its own region is fat");
    rep
}
