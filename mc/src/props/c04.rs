//! C04 — every operation history keeps a tree well-formed and usable.
//! C05 — cached feasibility verdicts and witnesses stay sound across histories.
//! Both are decided on the same depth-bounded exploration of operation histories
//! (explicit enumeration of the history tree, real methods as transition function).
use super::common::*;
use crate::gen::{Aff, TSpec};
use crate::hist::{GSpec, Init, Op};
use crate::lp::{thickness, Thickness};
use crate::q::{dot, Q};
use crate::report::{catch, par_cases, CaseOut, Report, Tier, Violation};
use crate::snap::{snap, SState, Snap};
use affinitree::linalg::affine::Polytope;
use affinitree::pwl::afftree::AffTree;
use ndarray::{Array1, Array2};
use serde_json::json;
use std::collections::HashSet;
use std::sync::Mutex;

fn r1(a: &[f64], b: f64) -> Aff {
    Aff::row1(a, b)
}

fn operand_tree(in_dim: usize, out_dim: usize, partial: bool) -> TSpec {
    let mut p = vec![0.0; in_dim];
    p[0] = 1.0;
    let m0: Vec<Vec<f64>> = (0..out_dim).map(|i| (0..in_dim).map(|j| if (i + j) % 2 == 0 { 1.0 } else { 0.0 }).collect()).collect();
    let m1: Vec<Vec<f64>> = (0..out_dim).map(|i| (0..in_dim).map(|j| if i == j { -1.0 } else { 0.5 }).collect()).collect();
    let l0 = TSpec::Leaf(Aff::with_indim(m0, vec![1.0; out_dim], in_dim));
    let l1 = TSpec::Leaf(Aff::with_indim(m1, (0..out_dim).map(|i| i as f64).collect(), in_dim));
    TSpec::Dec(Aff::with_indim(vec![p], vec![0.5], in_dim), vec![if partial { None } else { Some(l0) }, Some(l1)])
}

pub fn ops_for(in_dim: usize, d: usize, tier: Tier) -> Vec<Op> {
    let mut ops = super::c03::ops_for(d, tier);
    ops.push(Op::Reduce);
    ops.push(Op::Neg);
    ops.push(Op::Arith('+', operand_tree(in_dim, d, false)));
    ops.push(Op::Arith('-', operand_tree(in_dim, d, true)));
    ops.push(Op::Arith('*', operand_tree(in_dim, d, false)));
    let f = Aff::with_indim((0..d).map(|i| (0..in_dim).map(|j| ((i + 2 * j) % 3) as f64 - 1.0).collect()).collect(), (0..d).map(|i| 0.5 - i as f64).collect(), in_dim);
    ops.push(Op::ArithAff('+', f.clone(), false));
    ops.push(Op::ArithAff('-', f.clone(), true));
    if in_dim == 2 {
        ops.push(Op::RemoveAxes(vec![true, false]));
    }
    ops
}

pub fn inits(tier: Tier) -> Vec<Init> {
    let mut v = vec![
        Init::New(1),
        Init::New(2),
        Init::FromAff(r1(&[2.0], -1.0)),
        Init::FromAff(Aff::new(vec![vec![1.0, 1.0], vec![1.0, -1.0]], vec![0.0, 0.5])),
        Init::FromAff(r1(&[1.0, -1.0], 0.0)),
        Init::FromPoly(vec![(vec![1.0], 1.0), (vec![-1.0], 1.0)], r1(&[1.0], 0.0), None),
        Init::FromPoly(vec![(vec![1.0], 1.0), (vec![-1.0], 1.0)], r1(&[1.0], 0.0), Some(r1(&[0.0], 5.0))),
        Init::FromPoly(vec![(vec![1.0], 0.0), (vec![-1.0], -1.0)], r1(&[-1.0], 0.0), None),
        Init::FromPoly(vec![(vec![1.0, 0.0], 0.0), (vec![0.0, 1.0], 0.0)], Aff::identity(2), None),
        Init::FromPoly(vec![(vec![1.0, 1.0], 1.0), (vec![-1.0, 0.0], 0.0), (vec![0.0, -1.0], 0.0)], Aff::identity(2), Some(Aff::new(vec![vec![0.0, 0.0], vec![0.0, 0.0]], vec![1.0, 1.0]))),
    ];
    for d in 1..=2usize {
        let mut gs = vec![GSpec::Relu(0), GSpec::Leaky(0, 0.5), GSpec::HardTanh(0), GSpec::HardShrink(0, 1.0), GSpec::Threshold(0, 0.0, 1.0)];
        if d == 2 {
            gs.extend([GSpec::Relu(1), GSpec::Argmax, GSpec::ClassChar(1)]);
        }
        for g in gs {
            v.push(Init::Schema(g, d));
        }
    }
    if tier == Tier::Thorough {
        for t in super::c03::user_trees(1).into_iter().chain(super::c03::user_trees(2)) {
            v.push(Init::Spec(t));
        }
    }
    v
}

/// non-initial cache states a user can set up through the public `state` field: several sample inputs stored at the
/// root (all of them valid witnesses there), on both sides of the predicates that later operations put below
pub fn seeded_inits() -> Vec<Init> {
    let two = vec![vec![-1.0], vec![1.0]];
    let three = vec![vec![-2.0], vec![0.5], vec![2.0]];
    let quad = vec![vec![-1.0, -1.0], vec![1.0, -1.0], vec![-1.0, 1.0], vec![1.0, 1.0]];
    vec![
        Init::Seeded(Box::new(Init::New(1)), two.clone()),
        Init::Seeded(Box::new(Init::New(1)), three),
        Init::Seeded(Box::new(Init::New(2)), quad.clone()),
        Init::Seeded(Box::new(Init::Schema(GSpec::Relu(0), 1)), two.clone()),
        Init::Seeded(Box::new(Init::Schema(GSpec::HardTanh(0), 1)), vec![vec![-2.0], vec![0.0], vec![2.0]]),
        Init::Seeded(Box::new(Init::Schema(GSpec::Relu(0), 2)), quad.clone()),
        Init::Seeded(Box::new(Init::FromAff(Aff::new(vec![vec![1.0, 1.0], vec![1.0, -1.0]], vec![0.0, 0.5]))), quad),
        Init::Seeded(Box::new(Init::FromPoly(vec![(vec![1.0], 1.0), (vec![-1.0], 1.0)], r1(&[1.0], 0.0), Some(r1(&[0.0], 5.0)))), two),
        // a root marked Feasible without any witness
        Init::Seeded(Box::new(Init::Schema(GSpec::Relu(0), 1)), vec![]),
        Init::Seeded(Box::new(Init::Schema(GSpec::HardTanh(0), 2)), vec![]),
        // a stored point that misses a long row by 2^-20 (about 1e-6, far beyond the 1e-8 tolerance) although its
        // distance to the hyperplane is only 2^-30: 1024 x <= -2^-20 with the witness 0, and the 2-D analogue
        Init::Seeded(
            Box::new(Init::Spec(TSpec::Dec(r1(&[1024.0], -(2f64.powi(-20))), vec![Some(TSpec::Leaf(r1(&[1.0], 0.0))), Some(TSpec::Leaf(r1(&[-1.0], 0.0)))]))),
            vec![vec![0.0], vec![1.0]],
        ),
        Init::Seeded(
            Box::new(Init::Spec(TSpec::Dec(
                r1(&[512.0, 512.0], -(2f64.powi(-20))),
                vec![Some(TSpec::Leaf(Aff::identity(2))), Some(TSpec::Dec(r1(&[-64.0, 0.0], 2f64.powi(-22)), vec![Some(TSpec::Leaf(Aff::identity(2))), Some(TSpec::Leaf(Aff::identity(2)))]))],
            ))),
            vec![vec![0.0, 0.0], vec![-1.0, 0.5]],
        ),
    ]
}

const TAU: f64 = 1e-8;

/// C05 invariant on one snapshot
pub fn cache_sound(s: &Snap) -> Vec<(String, String)> {
    let mut errs = vec![];
    if let Some(m) = s.nonfinite.iter().find(|m| m.contains("witness")) {
        errs.push(("nonfinite_witness".into(), m.clone()));
    }
    let tol = Q::from_f64(TAU + 1e-12);
    for (i, n) in &s.nodes {
        match &n.state {
            SState::Witness(ws) => {
                if ws.is_empty() {
                    errs.push(("empty_witness_list".into(), format!("node {i}")));
                    continue;
                }
                let rows = match s.path_rows(*i) {
                    Ok(r) => r,
                    Err(_) => continue, // malformed trees are C04's business
                };
                for w in ws {
                    if w.len() != s.in_dim {
                        errs.push(("witness_dimension".into(), format!("node {i}: witness of length {} in a tree with in_dim {}", w.len(), s.in_dim)));
                        break;
                    }
                    for (a, b) in &rows {
                        let slack = b - &dot(a, w);
                        if slack < -tol.clone() {
                            errs.push(("witness_outside_path".into(), format!("node {i}: witness {:?} violates a path condition by {}", crate::q::fmt_vec(w), (-slack).to_f64())));
                            break;
                        }
                    }
                }
            }
            SState::Infeasible => {
                if let Ok(rows) = s.path_rows(*i) {
                    if thickness(s.in_dim, &rows, &delta()) == Thickness::Fat {
                        errs.push(("infeasible_but_fat".into(), format!("node {i} is marked infeasible but its path region has interior margin >= 1e-6")));
                    }
                }
            }
            _ => {}
        }
    }
    errs
}

struct Ctx<'a> {
    init: &'a Init,
    tier: Tier,
    maxlen: usize,
    max_nodes: usize,
    out: CaseOut,
    seen: HashSet<u64>,
    for_c05: bool,
    /// restrict the first operation (work splitting)
    first: Option<usize>,
}

fn hash_snap(s: &Snap) -> u64 {
    use std::hash::{Hash, Hasher};
    let mut h = std::collections::hash_map::DefaultHasher::new();
    s.in_dim.hash(&mut h);
    s.root.hash(&mut h);
    for (i, n) in &s.nodes {
        i.hash(&mut h);
        n.parent.hash(&mut h);
        n.children.hash(&mut h);
        n.isleaf.hash(&mut h);
        n.mat.hash(&mut h);
        n.bias.hash(&mut h);
        match &n.state {
            SState::Indet => 0u8.hash(&mut h),
            SState::Infeasible => 1u8.hash(&mut h),
            SState::Feasible => 2u8.hash(&mut h),
            SState::Witness(w) => {
                3u8.hash(&mut h);
                w.hash(&mut h)
            }
        }
    }
    h.finish()
}

fn explore(ctx: &mut Ctx, tree: &AffTree<2>, s: &Snap, in_dim: usize, d: usize, hist: &mut Vec<Op>) {
    if hist.len() == ctx.maxlen {
        return;
    }
    for (oi, op) in ops_for(in_dim, d, ctx.tier).into_iter().enumerate() {
        if !op.fits(d) || !op.fits_in(in_dim) {
            continue;
        }
        if hist.is_empty() {
            if let Some(f) = ctx.first {
                if f != oi {
                    continue;
                }
            }
        }
        let nd = op.out_dim(d);
        let nin = op.in_dim_after(in_dim);
        if nd > 2 || nd == 0 || nin == 0 {
            continue;
        }
        let mut t2 = tree.clone();
        hist.push(op.clone());
        ctx.out.add("transitions", 1);
        let rec = |extra: serde_json::Value| json!({"init": ctx.init.to_json(), "history": hist.iter().map(|o| o.to_json()).collect::<Vec<_>>(), "detail": extra});
        // the progress-display twin of a composition is run for the first two operations of a history (C04 only)
        let res = if !ctx.for_c05 && hist.len() <= 2 { op.run_both(&mut t2, d) } else { op.run(&mut t2, d) };
        match res {
            Err(msg) => {
                if !ctx.for_c05 {
                    let (kind, text) = op.failure(&msg);
                    let v = Violation::new(format!("after a dimension-compatible history: {text}"), rec(json!({"arena_before": s.to_json()}))).tag("kind", kind).tag("op", op.name());
                    ctx.out.violate(v);
                }
            }
            Ok(()) => {
                let s2 = snap(&t2);
                if ctx.seen.insert(hash_snap(&s2)) {
                    ctx.out.add("states", 1);
                }
                let mut ok = true;
                if !ctx.for_c05 {
                    if s2.in_dim != nin {
                        let v = Violation::new(format!("in_dim {} after {}, expected {nin}", s2.in_dim, op.name()), rec(json!({}))).tag("kind", "malformed").tag("inv", "in_dim_value").tag("op", op.name());
                        ctx.out.violate(v);
                        ok = false;
                    }
                    if let Err((tag, msg)) = well_formed(&s2, Some(nd)) {
                        let v = Violation::new(format!("after {}: {msg}", op.name()), rec(json!({"arena_before": s.to_json(), "arena_after": s2.to_json()}))).tag("kind", "malformed").tag("inv", tag).tag("op", op.name());
                        ctx.out.violate(v);
                        ok = false;
                    }
                    // a node that was a decision before the step is never a leaf after it (A5)
                    for (i, n) in &s.nodes {
                        if !n.isleaf {
                            if let Some(n2) = s2.nodes.get(i) {
                                if n2.isleaf {
                                    let v = Violation::new(format!("decision {i} became a terminal through {}", op.name()), rec(json!({"arena_before": s.to_json(), "arena_after": s2.to_json()}))).tag("kind", "malformed").tag("inv", "decision_became_leaf").tag("op", op.name());
                                    ctx.out.violate(v);
                                    ok = false;
                                    break;
                                }
                            }
                        }
                    }
                } else {
                    if well_formed(&s2, Some(nd)).is_err() {
                        ok = false;
                    }
                    if ok {
                        for (tag, msg) in cache_sound(&s2).into_iter().take(2) {
                            let v = Violation::new(format!("after {}: {msg}", op.name()), rec(json!({"arena_after": s2.to_json()}))).tag("kind", "cache").tag("inv", tag).tag("op", op.name());
                            ctx.out.violate(v);
                        }
                    }
                }
                if ok && s2.nodes.len() <= ctx.max_nodes {
                    explore(ctx, &t2, &s2, nin, nd, hist);
                } else if ok {
                    ctx.out.add("node_cap_hits", 1);
                }
            }
        }
        hist.pop();
    }
}

fn run_init(init: &Init, first: usize, tier: Tier, for_c05: bool) -> CaseOut {
    let maxlen = match tier { Tier::Quick => 3, Tier::Thorough => 4 };
    let mut ctx = Ctx { init, tier, maxlen, max_nodes: 200, out: CaseOut::default(), seen: HashSet::new(), for_c05, first: Some(first) };
    let t = match catch(|| init.build()) {
        Ok(t) => t,
        Err(m) => {
            ctx.out.violate(Violation::new(format!("constructor panicked: {m}"), init.to_json()).tag("kind", "panic").tag("op", "constructor"));
            return ctx.out;
        }
    };
    let s = snap(&t);
    ctx.seen.insert(hash_snap(&s));
    if first == 0 {
        ctx.out.add("states", 1);
    }
    if !for_c05 && first == 0 {
        if let Err((tag, msg)) = well_formed(&s, Some(init.out_dim())) {
            ctx.out.violate(Violation::new(format!("constructor result: {msg}"), init.to_json()).tag("kind", "malformed").tag("inv", tag).tag("op", "constructor"));
        }
    }
    let mut hist = vec![];
    explore(&mut ctx, &t, &s, init.in_dim(), init.out_dim(), &mut hist);
    ctx.out.sample = Some(json!({"init": init.to_json(), "operations_available_at_depth_0": ops_for(init.in_dim(), init.out_dim(), tier).iter().filter(|o| o.fits(init.out_dim()) && o.fits_in(init.in_dim())).map(|o| o.to_json()).take(6).collect::<Vec<_>>()}));
    ctx.out
}

/// split each init's exploration by its first operation to use all cores
fn run_all(tier: Tier, for_c05: bool) -> CaseOut {
    let mut is = inits(tier);
    if for_c05 {
        is.extend(seeded_inits());
    }
    let total = Mutex::new(CaseOut::default());
    let mut tasks: Vec<(Init, usize)> = vec![];
    for init in &is {
        for k in 0..ops_for(init.in_dim(), init.out_dim(), tier).len() {
            tasks.push((init.clone(), k));
        }
    }
    let outs = par_cases(&tasks, |_, (init, k)| run_init(init, *k, tier, for_c05));
    let mut t = total.into_inner().unwrap();
    t.merge(outs);
    t
}

pub fn run(tier: Tier) -> Report {
    let mut rep = Report::new("C04", tier, "model_checking");
    let total = run_all(tier, false);
    rep.absorb(total);
    let tr = rep.coverage.get("transitions").and_then(|v| v.as_u64()).unwrap_or(0);
    rep.set("traces_validated_against_impl", tr);
    rep.set("bound", format!("every history of <= {} operations from {} constructor results; alphabet per state: apply_func (4 maps), compose pruned/unpruned (11-13 operands incl. partial user trees), infeasible_elimination, reduce, neg, tree +,-,* (total and partial operand), affine + and affine-on-the-left -, remove_axes; trees capped at 200 nodes", if tier == Tier::Quick { 3 } else { 4 }, inits(tier).len()));
    rep.assume("arguments are dimension-compatible with the tracked input/output dimensions; histories are not merged (no state abstraction); 'states' counts distinct arena snapshots per (constructor, first operation) task");
    rep
}

// ------------------------------------------------------------------------------------------
// C05

fn mirror_grid(tier: Tier) -> CaseOut {
    // polytopes x start points x iteration counts
    let mut polys: Vec<Vec<(Vec<f64>, f64)>> = vec![];
    let coef = [0.0, 1.0, -1.0, 2.0, -2.0];
    let bias = [-1.0, 0.0, 1.0, 2.0];
    for &a in &coef {
        for &b in &bias {
            polys.push(vec![(vec![a], b)]);
            for &a2 in &coef {
                for &b2 in &bias {
                    polys.push(vec![(vec![a], b), (vec![a2], b2)]);
                }
            }
        }
    }
    let c2: Vec<Vec<f64>> = vec![vec![1.0, 0.0], vec![0.0, 1.0], vec![-1.0, 0.0], vec![0.0, -1.0], vec![1.0, 1.0], vec![-1.0, 1.0], vec![2.0, -1.0], vec![0.0, 0.0]];
    for (i, a) in c2.iter().enumerate() {
        for &b in &bias {
            polys.push(vec![(a.clone(), b)]);
            for (j, a2) in c2.iter().enumerate() {
                for &b2 in &[0.0, 1.0] {
                    polys.push(vec![(a.clone(), b), (a2.clone(), b2)]);
                    if tier == Tier::Thorough || (i + j) % 3 == 0 {
                        for a3 in c2.iter() {
                            polys.push(vec![(a.clone(), b), (a2.clone(), b2), (a3.clone(), 1.0)]);
                        }
                    }
                }
            }
        }
    }
    let lattice = [-2.0, -0.5, 0.0, 1.0, 3.0];
    par_cases(&polys, |_, rows| {
        let mut out = CaseOut::default();
        let n = rows[0].0.len();
        let mut m = Array2::<f64>::zeros((rows.len(), n));
        let mut bb = Array1::<f64>::zeros(rows.len());
        for (i, (a, b)) in rows.iter().enumerate() {
            for j in 0..n {
                m[[i, j]] = a[j];
            }
            bb[i] = *b;
        }
        let poly = Polytope::from_mats(m, bb);
        let rq = super::c17::rows_q(rows);
        // start point sets
        let mut starts: Vec<Vec<Vec<f64>>> = vec![];
        if n == 1 {
            for &x in &lattice {
                starts.push(vec![vec![x]]);
                for &y in &lattice {
                    starts.push(vec![vec![x], vec![y]]);
                }
            }
        } else {
            for &x in &lattice {
                for &y in &lattice {
                    starts.push(vec![vec![x, y]]);
                    starts.push(vec![vec![x, y], vec![y, -x]]);
                }
            }
        }
        // NaN start points (they are in no polytope, and neither is anything computed from them). Start points at the
        // edge of the f64 range were tried and withdrawn: there the normalised products lose 1e292 in absolute terms
        // and the summed step overflows to -inf on the unchanged tree, a regime the properties do not speak about.
        for v in [f64::NAN] {
            if n == 1 {
                starts.push(vec![vec![v]]);
                starts.push(vec![vec![1.0], vec![v]]);
            } else {
                starts.push(vec![vec![v, 0.0]]);
                starts.push(vec![vec![1.0, v]]);
                starts.push(vec![vec![v, -v]]);
            }
        }
        for st in &starts {
            let mut pts = Array2::<f64>::zeros((n, st.len()));
            for (c, p) in st.iter().enumerate() {
                for r in 0..n {
                    pts[[r, c]] = p[r];
                }
            }
            for &it in &[1usize, 2, 8, 20] {
                out.add("mirror_evaluations", 1);
                let res = catch(|| AffTree::<2>::mirror_points(&poly, &pts, it));
                let rec = || json!({"polytope_rows": rows, "start_points": st, "n_iterations": it});
                match res {
                    Err(msg) => out.violate(Violation::new(format!("mirror_points panicked: {msg}"), rec()).tag("kind", "mirror").tag("what", "panic")),
                    Ok(None) => {}
                    Ok(Some((sol, cnt))) => {
                        out.add("mirror_nontrivial", (cnt > 0) as u64);
                        if cnt >= it {
                            out.violate(Violation::new(format!("mirror_points reports iteration {cnt} with n_iterations {it}"), rec()).tag("kind", "mirror").tag("what", "count"));
                        }
                        if sol.shape()[1] == 0 {
                            out.violate(Violation::new("mirror_points returned no column", rec()).tag("kind", "mirror").tag("what", "empty"));
                        }
                        for col in sol.axis_iter(ndarray::Axis(1)) {
                            if col.iter().any(|x| !x.is_finite()) {
                                // the start points are of ordinary size or NaN: a point with a non-finite coordinate is in no polytope
                                out.violate(Violation::new(format!("mirror_points returned the non-finite point {:?}", col.to_vec()), rec()).tag("kind", "mirror").tag("what", "nonfinite"));
                                continue;
                            }
                            let w: Vec<Q> = col.iter().map(|x| Q::from_f64(*x)).collect();
                            for (a, b) in &rq {
                                if b - &dot(a, &w) < -Q::from_f64(TAU + 1e-12) {
                                    out.violate(Violation::new(format!("mirror_points returned {:?} outside the polytope", col.to_vec()), rec()).tag("kind", "mirror").tag("what", "outside"));
                                    break;
                                }
                            }
                        }
                    }
                }
            }
        }
        out
    })
}

pub fn run_c05(tier: Tier) -> Report {
    let mut rep = Report::new("C05", tier, "model_checking");
    let total = run_all(tier, true);
    rep.absorb(total);
    let mg = mirror_grid(tier);
    rep.absorb(mg);
    let wf = super::c11::cache_under_witness_faults(tier);
    rep.absorb(wf);
    let tr = rep.coverage.get("transitions").and_then(|v| v.as_u64()).unwrap_or(0);
    rep.set("traces_validated_against_impl", tr);
    rep.set("bound", format!("the C04 history exploration (<= {} operations) with the cache invariant evaluated on every node of every reached state; mirror_points on an exhaustive grid (1-2 dim polytopes with <= 3 rows, 1-2 start points from a 5-point lattice per axis plus NaN, n_iterations in {{1,2,8,20}}); the witness-repair branch is driven by every single witness fault (solver point moved 1e-6 / 1e-3 beyond the tightest row, or by +1e3 / -1e2 / +3 in every coordinate, or made NaN) and by an 'unbounded' answer (state Feasible without witness above later nodes) at every LP call of ~400 pruning runs", if tier == Tier::Quick { 3 } else { 4 }));
    rep.assume("witness containment tolerance 1e-8 (+1e-12 for the f64 evaluation the library itself performs); 'infeasible' must not be fat (margin 1e-6)");
    rep
}
