//! C11 — pruning is fail-safe when the LP solver misbehaves.
//! Exhaustive enumeration of fault plans (deviation-bounded) over the LP calls of a run,
//! injected through the cfg(affinitree_verif) hook in Polytope::solve_linprog.
use super::c03::Case as HCase;
use super::c04::cache_sound;
use super::common::*;
use crate::hist::Op;
use crate::report::{catch, par_cases, CaseOut, Report, Tier, Violation};
use crate::snap::{snap, Snap};
use affinitree::linalg::polyhedron::verif_hooks::{self as hooks, Fault};
use affinitree::pwl::afftree::AffTree;
use serde_json::json;

fn kinds() -> Vec<Fault> {
    vec![Fault::Error("injected".into()), Fault::Unbounded, Fault::Perturbed(1e-6), Fault::Perturbed(1e-3), Fault::FarOff(1e3), Fault::FarOff(-100.0)]
}

/// single-fault plans additionally use an 'optimal' point whose coordinates are NaN (it is in no polytope either).
/// Infinite coordinates are not used: the library mirrors +inf to -inf, which `contains` accepts for a region that
/// is unbounded in that direction - a consistent certificate the property does not rule out.
fn kinds_single() -> Vec<Fault> {
    let mut v = kinds();
    v.push(Fault::FarOff(f64::NAN));
    v
}

fn kind_name(f: &Fault) -> &'static str {
    match f {
        Fault::Error(_) => "Error",
        Fault::Unbounded => "Unbounded",
        Fault::Perturbed(e) => if *e < 1e-4 { "Perturbed(1e-6)" } else { "Perturbed(1e-3)" },
        Fault::FarOff(o) if o.is_nan() => "FarOff(NaN)",
        Fault::FarOff(o) if o.is_infinite() => "FarOff(inf)",
        Fault::FarOff(o) => if *o > 0.0 { "FarOff(+1e3)" } else { "FarOff(-1e2)" },
    }
}

/// programs: histories ending in a pruning operation whose last step solves at least one LP
pub fn programs(tier: Tier) -> Vec<HCase> {
    // fixed strides through the deterministic enumeration of the (quick) C03 space
    let stride = match tier { Tier::Quick => 1499, Tier::Thorough => 251 };
    let mut v = super::c03::cases_strided(Tier::Quick, stride);
    v.extend(far_programs(1e6));
    v.extend(far_programs(1e9));
    v.extend(touching_programs());
    v
}

/// an eliminated tree (cached witnesses) whose regions are met by the grafted thresholds in a single point or a
/// segment only
fn touching_programs() -> Vec<HCase> {
    use crate::gen::{Aff, TSpec};
    use crate::hist::{GSpec, Init};
    let r1 = |a: &[f64], b: f64| Aff::row1(a, b);
    let lin = |c: f64| Some(TSpec::Leaf(Aff::row1(&[1.0], c)));
    let inner = TSpec::Dec(r1(&[-1.0], -1.0), vec![lin(0.0), Some(TSpec::Dec(r1(&[1.0], 5.0), vec![lin(0.0), lin(0.0)]))]);
    let k = |c: f64| Some(TSpec::Leaf(Aff::row1(&[0.0], c)));
    let mut v = vec![];
    for th in [5.0f64, 1.0, 3.0] {
        for flip in [false, true] {
            let outer = if flip { TSpec::Dec(r1(&[1.0], th), vec![k(10.0), k(20.0)]) } else { TSpec::Dec(r1(&[-1.0], -th), vec![k(10.0), k(20.0)]) };
            v.push(HCase { init: Init::Spec(inner.clone()), ops: vec![Op::Elim, Op::Compose(GSpec::User(outer.clone()), true)] });
            v.push(HCase { init: Init::Spec(inner.clone()), ops: vec![Op::Compose(GSpec::User(outer), true)] });
        }
    }
    let id2 = |c: f64| Some(TSpec::Leaf(Aff::new(vec![vec![1.0, 0.0], vec![0.0, 1.0]], vec![c, 0.0])));
    let inner2 = TSpec::Dec(r1(&[-1.0, 0.0], -1.0), vec![id2(0.0), Some(TSpec::Dec(r1(&[1.0, 1.0], 5.0), vec![id2(0.0), id2(0.0)]))]);
    let k2 = |c: f64| Some(TSpec::Leaf(Aff::row1(&[0.0, 0.0], c)));
    for (a, b) in [([1.0, 1.0], 5.0), ([-1.0, -1.0], -5.0), ([-1.0, 0.0], -1.0)] {
        let outer = TSpec::Dec(r1(&a, b), vec![k2(10.0), k2(20.0)]);
        v.push(HCase { init: Init::Spec(inner2.clone()), ops: vec![Op::Elim, Op::Compose(GSpec::User(outer), true)] });
    }
    v
}

/// trees whose regions lie far from the origin (thresholds 5 and 7 times `unit`, 2-D: a far corner)
pub fn far_programs(unit: f64) -> Vec<HCase> {
    use crate::gen::{Aff, TSpec};
    use crate::hist::{GSpec, Init};
    let r1 = |a: &[f64], b: f64| Aff::row1(a, b);
    let k1 = |c: f64| Some(TSpec::Leaf(Aff::row1(&[0.0], c)));
    let (u5, u7) = (5.0 * unit, 7.0 * unit);
    let t1 = TSpec::Dec(r1(&[1.0], u5), vec![Some(TSpec::Dec(r1(&[1.0], u7), vec![k1(3.0), k1(2.0)])), k1(1.0)]);
    let t1b = TSpec::Dec(r1(&[-1.0], -u5), vec![k1(1.0), Some(TSpec::Dec(r1(&[-1.0], -u7), vec![k1(2.0), k1(3.0)]))]);
    let k2 = |c: f64| Some(TSpec::Leaf(Aff::row1(&[0.0, 0.0], c)));
    let t2 = TSpec::Dec(r1(&[1.0, 0.0], u5), vec![Some(TSpec::Dec(r1(&[0.0, 1.0], -u7), vec![k2(3.0), k2(2.0)])), k2(1.0)]);
    let mut v = vec![];
    for t in [t1.clone(), t1b] {
        v.push(HCase { init: Init::Spec(t.clone()), ops: vec![Op::Elim] });
        v.push(HCase { init: Init::FromAff(r1(&[1.0], 0.0)), ops: vec![Op::Compose(GSpec::Relu(0), false), Op::Compose(GSpec::User(t), true)] });
    }
    v.push(HCase { init: Init::Spec(t2.clone()), ops: vec![Op::Elim] });
    v.push(HCase { init: Init::FromAff(Aff::identity(2)), ops: vec![Op::Compose(GSpec::Relu(0), false), Op::Compose(GSpec::User(t2), true)] });
    v
}

struct Prepared {
    before: AffTree<2>,
    d: usize,
    last: Op,
    unpruned: Snap,
    before_snap: Snap,
    /// result of the fault-free run (filled in by the first run_plan call with an empty plan)
    fault_free: std::cell::RefCell<Option<Snap>>,
}

fn prepare(c: &HCase) -> Option<Prepared> {
    hooks::clear();
    let mut p = c.init.build();
    let mut u = c.init.build();
    let mut d = c.init.out_dim();
    let n = c.ops.len();
    for op in &c.ops[..n - 1] {
        op.run(&mut p, d).ok()?;
        if let Some(uo) = op.unpruned() {
            uo.run(&mut u, d).ok()?;
        }
        d = op.out_dim(d);
    }
    let last = c.ops[n - 1].clone();
    // reference: the same history without any pruning
    if let Some(uo) = last.unpruned() {
        uo.run(&mut u, d).ok()?;
    }
    let before_snap = snap(&p);
    Some(Prepared { before: p, d, last, unpruned: snap(&u), before_snap, fault_free: std::cell::RefCell::new(None) })
}

/// one faulty run; returns (LP calls made, faults injected)
fn run_plan(pr: &Prepared, plan: &[(usize, Fault)], rec: &dyn Fn() -> serde_json::Value, out: &mut CaseOut) -> (usize, usize) {
    let mut t = pr.before.clone();
    hooks::set_plan(plan.to_vec());
    let res = pr.last.run(&mut t, pr.d);
    let calls = hooks::calls();
    let inj = hooks::injected();
    hooks::clear();
    out.add("evaluations", 1);
    let plan_tag: String = {
        let mut ks: Vec<&str> = plan.iter().map(|(_, f)| kind_name(f)).collect();
        ks.sort();
        ks.dedup();
        ks.join("+")
    };
    let planj = || json!(plan.iter().map(|(i, f)| json!({"lp_call": i, "fault": kind_name(f)})).collect::<Vec<_>>());
    let mut fail = |out: &mut CaseOut, kind: &str, what: String, msg: String, extra: serde_json::Value| {
        let mut r = rec();
        r["fault_plan"] = planj();
        r["detail"] = extra;
        out.violate(Violation::new(format!("{} under faults {}: {msg}", pr.last.name(), planj()), r).tag("kind", kind).tag("what", what).tag("op", pr.last.name()).tag("faults", &plan_tag));
    };
    if let Err(m) = res {
        fail(out, "panic", "panic".into(), format!("panicked: {m}"), json!({}));
        return (calls, inj);
    }
    let s = snap(&t);
    if let Err((tag, msg)) = well_formed(&s, None) {
        fail(out, "malformed", tag, msg, json!({"arena_after": s.to_json()}));
        return (calls, inj);
    }
    for (tag, msg) in cache_sound(&s).into_iter().take(1) {
        fail(out, "cache", tag, msg, json!({"arena_after": s.to_json()}));
    }
    let (judged, thin) = compare_pruned_all(&pr.unpruned, &s, out, &mut |_| {});
    if let Some(m) = judged.first() {
        fail(out, "function", "function".into(), mismatch_summary(m), json!({"mismatch": m.to_json(), "arena_after": s.to_json()}));
    }
    if plan.is_empty() {
        *pr.fault_free.borrow_mut() = Some(s.clone());
    } else if let Some(s0) = pr.fault_free.borrow().as_ref() {
        // "the only permitted effect is less pruning": where the fault-free run keeps a region that is thinner than the
        // LP tolerance (and so agrees with the un-pruned function there), the faulted run must keep it too
        let n = s.in_dim;
        let at = |t: &Snap, x: &[crate::q::Q]| {
            let mut g = vec![];
            t.route(&crate::regions::AffMap::identity(n), n, x, &mut g).map(|o| o.map(|(_, m)| m.apply(x)))
        };
        for m in thin.iter().take(8) {
            let want = at(&pr.unpruned, &m.point);
            if want.is_ok() && at(s0, &m.point) == want && at(&s, &m.point) != want {
                fail(out, "more_pruning", "thin_region_lost".into(), format!("at x={:?} the fault-free run agrees with the un-pruned tree, the faulted run does not: {}", crate::q::fmt_vec(&m.point), mismatch_summary(m)), json!({"mismatch": m.to_json(), "arena_after": s.to_json()}));
                break;
            }
        }
    }
    if pr.last == Op::Elim {
        for (tag, msg) in structural_elim(&pr.before_snap, &s).into_iter().take(1) {
            fail(out, "structure", tag, msg, json!({"arena_before": pr.before_snap.to_json(), "arena_after": s.to_json()}));
        }
    }
    (calls, inj)
}

pub fn run_program(c: &HCase, tier: Tier) -> CaseOut {
    let mut out = CaseOut::default();
    let rec = || json!({"init": c.init.to_json(), "ops": c.ops.iter().map(|o| o.to_json()).collect::<Vec<_>>()});
    let pr = match catch(|| prepare(c)) {
        Ok(Some(p)) => p,
        _ => return out,
    };
    // fault-free run: number of LP calls
    let (n, _) = run_plan(&pr, &[], &rec, &mut out);
    out.add("programs", 1);
    if n == 0 {
        return out;
    }
    out.add("programs_with_lp_calls", 1);
    out.add("lp_calls_fault_free", n as u64);
    let ks = kinds();
    // bound 1: every single position x kind; the run is re-observed (later calls may shift)
    let mut reached_single = 0u64;
    for i in 0..n {
        for k in &kinds_single() {
            let (_, inj) = run_plan(&pr, &[(i, k.clone())], &rec, &mut out);
            reached_single += (inj > 0) as u64;
        }
    }
    out.add("plans_fault_reached", reached_single);
    // bound 2: every pair of positions x kind pairs (positions up to n+2: a fault can lengthen the run)
    let maxpos = n + 2;
    let pair_limit = match tier { Tier::Quick => 8, Tier::Thorough => 14 };
    if n <= pair_limit {
        for i in 0..maxpos {
            for j in i + 1..maxpos {
                for k1 in &ks {
                    for k2 in &ks {
                        let (_, inj) = run_plan(&pr, &[(i, k1.clone()), (j, k2.clone())], &rec, &mut out);
                        out.add("plans_fault_reached", (inj == 2) as u64);
                    }
                }
            }
        }
        out.add("programs_pairs_exhausted", 1);
    }
    // bound 3: every subset of positions with every kind assignment (4 kinds) for short runs
    let sub_limit = match tier { Tier::Quick => 4, Tier::Thorough => 6 };
    if n <= sub_limit {
        let ks4 = vec![Fault::Error("injected".into()), Fault::Unbounded, Fault::Perturbed(1e-3), Fault::FarOff(1e3)];
        for mask in 1u32..(1 << n) {
            if mask.count_ones() < 3 {
                continue; // covered above
            }
            let pos: Vec<usize> = (0..n).filter(|i| mask & (1 << i) != 0).collect();
            let mut assign = vec![0usize; pos.len()];
            loop {
                let plan: Vec<(usize, Fault)> = pos.iter().zip(assign.iter()).map(|(p, a)| (*p, ks4[*a].clone())).collect();
                let (_, inj) = run_plan(&pr, &plan, &rec, &mut out);
                out.add("plans_fault_reached", (inj == plan.len()) as u64);
                let mut k = 0;
                loop {
                    if k == assign.len() { break; }
                    assign[k] += 1;
                    if assign[k] < ks4.len() { break; }
                    assign[k] = 0;
                    k += 1;
                }
                if k == assign.len() { break; }
            }
        }
        out.add("programs_subsets_exhausted", 1);
    }
    if out.sample.is_none() && n >= 2 {
        out.sample = Some(json!({"program": rec(), "lp_calls_fault_free": n, "example_plan": [{"lp_call": 0, "fault": "Error"}, {"lp_call": n - 1, "fault": "FarOff"}]}));
    }
    out
}

/// C05 stage: the witness-repair path of phase_two is only reached when the solver's point is
/// rejected; every single witness fault at every LP call, cache soundness as the only oracle.
pub fn cache_under_witness_faults(tier: Tier) -> CaseOut {
    let ps = programs(tier);
    par_cases(&ps, |_, c| {
        let mut out = CaseOut::default();
        let rec = || json!({"init": c.init.to_json(), "ops": c.ops.iter().map(|o| o.to_json()).collect::<Vec<_>>()});
        let pr = match catch(|| prepare(c)) {
            Ok(Some(p)) => p,
            _ => return out,
        };
        // fault-free run for the number of calls
        let mut t = pr.before.clone();
        hooks::set_plan(vec![]);
        let _ = pr.last.run(&mut t, pr.d);
        let n = hooks::calls();
        hooks::clear();
        for i in 0..n {
            // Unbounded leaves a node in the state Feasible (no witness) above the nodes processed next, Error leaves it
            // Indeterminate next to decided siblings
            for k in [Fault::Perturbed(1e-6), Fault::Perturbed(1e-3), Fault::FarOff(1e3), Fault::FarOff(-100.0), Fault::FarOff(3.0), Fault::FarOff(f64::NAN), Fault::Unbounded, Fault::Error("injected".into())] {
                let mut t = pr.before.clone();
                hooks::set_plan(vec![(i, k.clone())]);
                let res = pr.last.run(&mut t, pr.d);
                let inj = hooks::injected();
                hooks::clear();
                out.add("witness_fault_runs", 1);
                out.add("transitions", 1);
                out.add("witness_faults_reached", (inj > 0) as u64);
                if res.is_err() {
                    continue; // panics under faults are C11's business
                }
                let s = snap(&t);
                for (tag, msg) in cache_sound(&s).into_iter().take(1) {
                    let mut r = rec();
                    r["fault_plan"] = json!([{"lp_call": i, "fault": kind_name(&k)}]);
                    r["arena_after"] = s.to_json();
                    out.violate(Violation::new(format!("{} with a rejected solver point ({} at LP call {i}): {msg}", pr.last.name(), kind_name(&k)), r).tag("kind", "cache").tag("inv", tag).tag("op", pr.last.name()).tag("via", "witness_fault"));
                }
            }
        }
        out
    })
}

pub fn run(tier: Tier) -> Report {
    set_delta(1e-7);
    let mut rep = Report::new("C11", tier, "fault_enumeration");
    let ps = programs(tier);
    let total = par_cases(&ps, |_, c| run_program(c, tier));
    rep.absorb(total);
    let reached = rep.coverage.get("plans_fault_reached").and_then(|v| v.as_u64()).unwrap_or(0);
    rep.set("distinct_nontrivial", reached);
    rep.set("rule", "programs: every k-th history of the C03 space (ending in infeasible_elimination or a pruned composition); per program the fault-free run fixes the number N of LP calls; plans: no fault, every single call index x {Error, Unbounded, Perturbed(1e-6), Perturbed(1e-3), FarOff(+1e3), FarOff(-1e2), FarOff(NaN)}, every pair of indices (< N+2) x kind pairs when N <= limit, every subset of >= 3 indices x {Error, Unbounded, Perturbed(1e-3), FarOff} when N is small; one evaluation per (program, plan); non-trivial = every fault of the plan was actually injected (the call index was reached); distinct by enumeration");
    rep.set("bound", match tier {
        Tier::Quick => "every 3001st history of the C03 quick space (about 300 programs); pairs for N <= 8; full subsets for N <= 4",
        Tier::Thorough => "every 251st history of the C03 quick space (about 3600 programs); pairs for N <= 14; full subsets for N <= 6",
    });
    rep.assume("oracle per run: no panic; function equals the un-pruned history (thin carve-out); well-formed; every cached witness inside its path polytope and no fat node marked infeasible; structural clause for elimination. A bare Feasible verdict from an injected Unbounded answer is not judged (it carries no witness and can only keep a node)");
    rep
}
