//! Self-validation of the machinery (DESIGN section 7).  Exit code 5 on failure.
use super::c10::{objectives, systems};
use crate::lp::{fm_feasible, maximize, thickness, LpResult, Row, Thickness};
use crate::q::{q, Q};
use crate::regions::{explore, AffMap, Config, Face, FnSide, Form};

pub fn run() -> i32 {
    let mut fails = 0;
    // 1. exact simplex vs Fourier-Motzkin: feasibility and optimality on an exhaustive grid
    let mut n_sys = 0u64;
    let mut n_opt = 0u64;
    for (n, ms) in [(1usize, vec![1usize, 2, 3]), (2, vec![1, 2, 3])] {
        for m in ms {
            let coef: &[f64] = if n == 2 && m == 3 { &[0.0, 1.0, -1.0] } else { &[0.0, 1.0, -1.0, 2.0] };
            let bias: &[f64] = if n == 2 && m == 3 { &[-1.0, 0.0, 1.0] } else { &[-1.0, 0.0, 1.0, 2.0] };
            for s in systems(n, m, coef, bias) {
                n_sys += 1;
                let rq = s.rows_q();
                let rows: Vec<Row> = rq.iter().map(|(a, b)| Row::le(a.clone(), b.clone())).collect();
                let feas = !matches!(maximize(n, &rows, &vec![Q::ZERO; n]), LpResult::Infeasible);
                if feas != fm_feasible(n, &rq) {
                    eprintln!("selftest: simplex and Fourier-Motzkin disagree on feasibility of {:?}", s.rows);
                    fails += 1;
                }
                for c in objectives(n, &[0.0, 1.0, -1.0]) {
                    let cq: Vec<Q> = c.iter().map(|x| Q::from_f64(*x)).collect();
                    match maximize(n, &rows, &cq) {
                        LpResult::Optimal(_, v) => {
                            n_opt += 1;
                            // c.x >= v feasible, c.x >= v + 1/1000 infeasible
                            let mut r1 = rq.clone();
                            r1.push((cq.iter().map(|x| -x).collect(), -v.clone()));
                            let mut r2 = rq.clone();
                            r2.push((cq.iter().map(|x| -x).collect(), -(&v + &Q::frac(1, 1000))));
                            if !fm_feasible(n, &r1) || fm_feasible(n, &r2) {
                                eprintln!("selftest: optimum {} of {:?} over {:?} not confirmed by Fourier-Motzkin", v, c, s.rows);
                                fails += 1;
                            }
                        }
                        LpResult::Unbounded => {
                            // c.x >= 1000 must be feasible
                            let mut r1 = rq.clone();
                            r1.push((cq.iter().map(|x| -x).collect(), Q::int(-1000)));
                            if !fm_feasible(n, &r1) {
                                eprintln!("selftest: 'unbounded' not confirmed for {:?} over {:?}", c, s.rows);
                                fails += 1;
                            }
                        }
                        LpResult::Infeasible => {
                            if feas {
                                fails += 1;
                            }
                        }
                    }
                }
            }
        }
    }
    // 2. thickness classes on hand-computed cases
    let d = Q::from_f64(1e-6);
    let t = |rows: Vec<(Vec<Q>, Q)>| thickness(1, &rows, &d);
    if t(vec![(vec![q(1)], q(1)), (vec![q(-1)], q(0))]) != Thickness::Fat { fails += 1; eprintln!("selftest: [0,1] not fat"); }
    if t(vec![(vec![q(1)], q(0)), (vec![q(-1)], q(0))]) != Thickness::Thin { fails += 1; eprintln!("selftest: {{0}} not thin"); }
    if t(vec![(vec![q(1)], q(0)), (vec![q(-1)], q(-1))]) != Thickness::RobustEmpty { fails += 1; eprintln!("selftest: empty not robustly empty"); }
    if t(vec![(vec![q(1)], q(0)), (vec![q(-1)], Q::from_f64(-1e-9))]) != Thickness::Thin { fails += 1; eprintln!("selftest: barely empty not thin"); }
    // 3. the region explorer finds exactly the seeded differences
    let step = |closed: bool, val_at: i64| {
        FnSide(move |x: &[Q], g: &mut Vec<Form>| {
            g.push(Form::new(vec![q(1), q(0)], q(-1)));
            g.push(Form::new(vec![q(0), q(1)], q(0)));
            let left = if closed { x[0] <= q(1) } else { x[0] < q(1) };
            let c = if left { q(val_at) } else if x[1].sign() <= 0 { q(7) } else { q(8) };
            Ok(Some(AffMap { m: vec![vec![q(0), q(0)]], c: vec![c] }))
        })
    };
    let mut cfg = Config::default();
    cfg.max_mismatches = 100;
    let o = explore(Face::whole(2), &step(true, 5), &step(true, 5), &cfg, &mut |_, _, _| {});
    if !o.mismatches.is_empty() || o.stats.faces != 9 - 2 {
        // faces: x<1 (1), x=1 (1) [y never met], x>1 split by y (3) ... the explorer only splits on guards met
        // both sides push both guards everywhere, so the full 3x3 arrangement is enumerated
        if o.stats.faces != 9 {
            eprintln!("selftest: expected 9 faces of a 2-line arrangement, got {}", o.stats.faces);
            fails += 1;
        }
    }
    let o = explore(Face::whole(2), &step(true, 5), &step(false, 5), &cfg, &mut |_, _, _| {});
    // differs exactly on the line x = 1: three faces (y<0, y=0, y>0)
    if o.mismatches.len() != 3 || o.mismatches.iter().any(|m| m.point[0] != q(1)) {
        eprintln!("selftest: boundary-only difference: expected 3 faces on x=1, got {:?}", o.mismatches.iter().map(|m| crate::q::fmt_vec(&m.point)).collect::<Vec<_>>());
        fails += 1;
    }
    let o = explore(Face::whole(2), &step(true, 5), &step(true, 6), &cfg, &mut |_, _, _| {});
    // differs on x <= 1: 3 open + 3 boundary faces
    if o.mismatches.len() != 6 {
        eprintln!("selftest: expected 6 differing faces, got {}", o.mismatches.len());
        fails += 1;
    }
    // 4. f64 <-> rational round trips
    for x in [0.1, -0.75, 1.0 / 6.0, 1e-9, 12345.678, f64::MIN_POSITIVE, 3e300] {
        if Q::from_f64(x).to_f64() != x {
            eprintln!("selftest: round trip of {x} failed");
            fails += 1;
        }
    }
    // 5. the storage layouts have the characteristics the checks rely on (on a tree with decisions at depth 2)
    {
        use crate::gen::{Aff, TSpec};
        let p = |b: f64| Aff::row1(&[1.0, 0.0], b);
        let leaf = |v: f64| Some(TSpec::Leaf(Aff::new(vec![vec![1.0, 2.0], vec![3.0, 4.0]], vec![v, 0.0])));
        let d2 = |b: f64| Some(TSpec::Dec(p(b), vec![leaf(b), leaf(b + 0.5)]));
        let t = TSpec::Dec(p(0.0), vec![Some(TSpec::Dec(p(1.0), vec![d2(2.0), d2(3.0)])), Some(TSpec::Dec(p(-1.0), vec![d2(-2.0), leaf(9.0)]))]);
        let s2 = crate::snap::snap(&t.build_layout::<2>(2));
        let child_before_parent = s2.nodes.iter().any(|(i, n)| !n.isleaf && n.parent.map(|p| p != s2.root && *i < p).unwrap_or(false));
        if !child_before_parent {
            eprintln!("selftest: the re-used-index layout has no decision stored before its parent: {:?}", s2.nodes.iter().map(|(i, n)| (*i, n.parent)).collect::<Vec<_>>());
            fails += 1;
        }
        let s4 = crate::snap::snap(&t.build_layout::<2>(4));
        let terms: Vec<usize> = s4.nodes.iter().filter(|(_, n)| n.isleaf).map(|(i, _)| *i).collect();
        let apart = s4.nodes.values().filter(|n| !n.isleaf).any(|n| match (n.children[0], n.children[1]) {
            (Some(a), Some(b)) if s4.nodes[&a].isleaf && s4.nodes[&b].isleaf => {
                let (ia, ib) = (terms.iter().position(|x| *x == a).unwrap() as i64, terms.iter().position(|x| *x == b).unwrap() as i64);
                (ia - ib).abs() > 1
            }
            _ => false,
        });
        if !apart {
            eprintln!("selftest: the interleaved layout keeps all sibling terminals next to each other");
            fails += 1;
        }
        let t3 = t.build_layout::<2>(3);
        if t3.tree.terminals().all(|n| n.value.aff.mat.is_standard_layout()) {
            eprintln!("selftest: the column-major layout stores terminal matrices in standard order");
            fails += 1;
        }
    }
    println!("selftest: {} systems, {} optima cross-checked against Fourier-Motzkin; explorer and classifier seeds ok: {}", n_sys, n_opt, if fails == 0 { "PASS" } else { "FAIL" });
    if fails == 0 { 0 } else { 5 }
}
