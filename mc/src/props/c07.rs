//! C07 — tree arithmetic is the point-wise lifting of (coefficient-wise) affine arithmetic.
use super::common::*;
use crate::gen::{Aff, TSpec, TreeGen};
use crate::lp::{thickness, Thickness};
use crate::q::Q;
use crate::regions::{AffMap, Config, FnSide, Form};
use crate::report::{catch, par_cases, CaseOut, Report, Tier, Violation};
use crate::snap::{conform_face, snap, Snap, TreeSide};
use affinitree::pwl::afftree::AffTree;
use serde_json::json;
use std::ops::{Add, Div, Mul, Sub};

#[derive(Clone, Debug)]
pub enum Case {
    TreeTree { a: TSpec, b: TSpec, op: char, elim_a: bool },
    TreeAff { a: TSpec, f: Aff, op: char, elim_a: bool },
    Neg { a: TSpec, elim_a: bool },
}

fn r1(a: &[f64], b: f64) -> Aff {
    Aff::row1(a, b)
}

fn gens(n: usize, o: usize, tier: Tier) -> (TreeGen, TreeGen) {
    let preds_a: Vec<Aff> = if n == 1 { vec![r1(&[1.0], 0.0), r1(&[-1.0], -1.0), r1(&[1.0], 2.0)] } else { vec![r1(&[1.0, 0.0], 0.0), r1(&[1.0, -1.0], 0.0), r1(&[-1.0, 0.0], -1.0)] };
    // the right operand has rows that are not of unit length and whose scaled copies would not be exact in f64
    let preds_b: Vec<Aff> = if n == 1 { vec![r1(&[1.0], 0.0), r1(&[3.0], 1.0), r1(&[-1.0], -2.0)] } else { vec![r1(&[1.0, 0.0], 0.0), r1(&[0.0, 1.0], 0.0), r1(&[1.0, 2.0], 1.0)] };
    let m = |rows: &[&[f64]], b: &[f64]| Aff::new(rows.iter().map(|r| r.to_vec()).collect(), b.to_vec());
    let (ta, tb): (Vec<Aff>, Vec<Aff>) = match (n, o) {
        (1, 1) => (vec![r1(&[1.0], 0.0), r1(&[-2.0], 1.0), r1(&[0.0], 3.0)], vec![r1(&[2.0], -1.0), r1(&[0.5], 2.0), r1(&[-1.0], 1.0)]),
        (2, 1) => (vec![r1(&[1.0, 1.0], 0.0), r1(&[0.0, -2.0], 1.0)], vec![r1(&[2.0, -1.0], 0.5), r1(&[1.0, 2.0], -1.0)]),
        (1, 2) => (vec![m(&[&[1.0], &[-1.0]], &[0.0, 1.0]), m(&[&[0.0], &[2.0]], &[3.0, 0.0])], vec![m(&[&[2.0], &[1.0]], &[-1.0, 0.5]), m(&[&[-1.0], &[0.5]], &[2.0, 1.0])]),
        _ => (vec![Aff::identity(2), m(&[&[0.0, 1.0], &[-2.0, 0.0]], &[1.0, 0.0])], vec![m(&[&[2.0, -1.0], &[1.0, 0.5]], &[0.5, -1.0]), m(&[&[-1.0, 2.0], &[0.5, 1.0]], &[1.0, 2.0])]),
    };
    let nn = if tier == Tier::Quick { 5 } else { 7 };
    (
        TreeGen { k: 2, preds: preds_a, terms: ta, max_depth: 2, max_nodes: nn, partial: true },
        TreeGen { k: 2, preds: preds_b, terms: tb, max_depth: 2, max_nodes: nn, partial: true },
    )
}

pub fn cases(tier: Tier) -> Vec<Case> {
    let mut out = vec![];
    let dims = [(1usize, 1usize), (2, 1), (1, 2), (2, 2)];
    for (n, o) in dims {
        let (ga, gb) = gens(n, o, tier);
        let ka = match (tier, n) { (Tier::Quick, 1) => 23, (Tier::Quick, _) => 31, (Tier::Thorough, 1) => 11, _ => 13 };
        let sa: Vec<TSpec> = ga.all().into_iter().enumerate().filter(|(i, t)| t.n_nodes() <= 3 || i % ka == 0).map(|(_, t)| t).collect();
        let sb: Vec<TSpec> = gb.all().into_iter().enumerate().filter(|(i, t)| t.n_nodes() <= 3 || i % ka == 0).map(|(_, t)| t).collect();
        for (i, a) in sa.iter().enumerate() {
            for (j, b) in sb.iter().enumerate() {
                for op in ['+', '-', '*', '/'] {
                    out.push(Case::TreeTree { a: a.clone(), b: b.clone(), op, elim_a: (i + j) % 4 == 0 });
                }
            }
            for (j, f) in gb.terms.iter().enumerate() {
                for op in ['+', '-', '*', '/'] {
                    // every 2nd operand went through infeasible_elimination first: cached states and holes in the arena
                    out.push(Case::TreeAff { a: a.clone(), f: f.clone(), op, elim_a: (i + j) % 2 == 0 });
                }
            }
            out.push(Case::Neg { a: a.clone(), elim_a: false });
            out.push(Case::Neg { a: a.clone(), elim_a: true });
        }
    }
    // one-split operands whose decision rows are short (norm 2^-13) or whose thresholds are large and not dyadic
    // (the LP vertex of a grafted edge then misses the hyperplane by more than 1e-8 in absolute terms)
    let split = |p: Aff, f0: Aff, f1: Aff| TSpec::Dec(p, vec![Some(TSpec::Leaf(f0)), Some(TSpec::Leaf(f1))]);
    let mut pairs: Vec<(TSpec, TSpec)> = vec![];
    let s13 = 2f64.powi(-13);
    for (pa, pb) in [(r1(&[1.0], 1.0), r1(&[1.0], 1.0 + f64::EPSILON)), (r1(&[1.0], 1.0), r1(&[1.0], 1.0)), (r1(&[s13], 0.0), r1(&[1.0], 1.0 / 256.0)), (r1(&[-s13], 0.0), r1(&[1.0], -1.0 / 256.0)), (r1(&[1.0], 0.0), r1(&[1.0], 2f64.powi(-28))), (r1(&[s13], s13), r1(&[-1.0], -1.0 - 1.0 / 512.0))] {
        pairs.push((split(pa.clone(), r1(&[1.0], 16.0), r1(&[2.0], 32.0)), split(pb.clone(), r1(&[4.0], 64.0), r1(&[8.0], 128.0))));
        pairs.push((split(pb, r1(&[1.0], 16.0), r1(&[2.0], 32.0)), split(pa, r1(&[4.0], 64.0), r1(&[8.0], 128.0))));
    }
    for c in [9.7f64, 3.3, 7.1, 0.7] {
        for t in [1e8f64, 1e9, 1e10] {
            let near = (t / c).round() + 16.0;
            pairs.push((split(r1(&[c], t), r1(&[1.0], 16.0), r1(&[2.0], 32.0)), split(r1(&[1.0], near), r1(&[4.0], 64.0), r1(&[8.0], 128.0))));
            pairs.push((split(r1(&[1.0], near), r1(&[1.0], 16.0), r1(&[2.0], 32.0)), split(r1(&[c], t), r1(&[4.0], 64.0), r1(&[8.0], 128.0))));
        }
    }
    for (ra, ta, rb, tb) in [([5.3, 0.1], 1e8, [0.7, 0.9], 2e8), ([0.7, 0.9], 2e8, [5.3, 0.1], 1e8), ([3.1, -0.7], 1e7, [0.3, 1.9], 3e7), ([1.3, 2.9], 1e8, [2.7, -1.1], 1e8)] {
        pairs.push((split(r1(&ra, ta), r1(&[1.0, 0.0], 16.0), r1(&[2.0, 0.0], 32.0)), split(r1(&rb, tb), r1(&[4.0, 0.0], 64.0), r1(&[8.0, 0.0], 128.0))));
    }
    for (a, b) in pairs {
        for op in ['+', '-', '/'] {
            // (division only where no coefficient of the divisor is zero: the one-input pairs)
            if op == '/' && b.aff().indim != 1 {
                continue;
            }
            out.push(Case::TreeTree { a: a.clone(), b: b.clone(), op, elim_a: false });
            out.push(Case::TreeTree { a: a.clone(), b: b.clone(), op, elim_a: true });
        }
    }
    out
}

fn qop(op: char, x: &Q, y: &Q) -> Q {
    match op {
        '+' => x + y,
        '-' => x - y,
        '*' => x * y,
        _ => x / y,
    }
}

/// coefficient-wise operator on two affine maps
fn coefwise(op: char, x: &AffMap, y: &AffMap) -> Result<AffMap, String> {
    if x.outdim() != y.outdim() || x.indim() != y.indim() {
        return Err("shape mismatch".into());
    }
    Ok(AffMap {
        m: x.m.iter().zip(y.m.iter()).map(|(r, s)| r.iter().zip(s.iter()).map(|(a, b)| qop(op, a, b)).collect()).collect(),
        c: x.c.iter().zip(y.c.iter()).map(|(a, b)| qop(op, a, b)).collect(),
    })
}

fn apply_op<A, B, O>(op: char, a: A, b: B) -> O
where
    A: Add<B, Output = O> + Sub<B, Output = O> + Mul<B, Output = O> + Div<B, Output = O>,
{
    match op {
        '+' => a + b,
        '-' => a - b,
        '*' => a * b,
        _ => a / b,
    }
}

fn judge(sa: &Snap, sb: Option<&Snap>, res: &AffTree<2>, reference: &dyn crate::regions::Side, out: &mut CaseOut, rec: &serde_json::Value, variant: &str, opname: String) {
    let sr = snap(res);
    let n = sa.in_dim;
    let imp = TreeSide(&sr);
    let mut conf = 0u64;
    let mut conf_err = None;
    let mut cfg = Config::default();
    cfg.max_mismatches = 16;
    let o = refine(n, &imp, reference, &cfg, out, &mut |face, _, _| {
        let (n, e) = conform_face(res, &sr, face, sr.is_small_dyadic());
        conf += n;
        if let Some(e) = e {
            conf_err = Some(e)
        }
    });
    out.add("traces_validated_against_impl", conf);
    if let Some(e) = conf_err {
        out.violate(Violation::new(format!("real evaluator disagrees with documented routing: {e}"), rec.clone()).tag("kind", "conformance"));
    }
    for m in &o.mismatches {
        // thin carve-out: closed region = route of a and route of b at the point
        let mut rows = sa.route_rows(&m.point).unwrap_or_default();
        if let Some(sb) = sb {
            rows.extend(sb.route_rows(&m.point).unwrap_or_default());
        }
        if thickness(n, &rows, &delta()) != Thickness::Fat {
            out.add("tolerated_thin_faces", 1);
            continue;
        }
        let mut r = rec.clone();
        r["mismatch"] = m.to_json();
        r["result_arena"] = sr.to_json();
        r["variant"] = json!(variant);
        out.violate(
            Violation::new(format!("{opname} ({variant}): {}", mismatch_summary(m)), r)
                .tag("kind", "function").tag("op", &opname).tag("what", match m.kind { crate::regions::MismatchKind::Defined(..) => "definedness", _ => "value" }),
        );
        break;
    }
}

pub fn run_case(c: &Case) -> CaseOut {
    let mut out = CaseOut::default();
    match c {
        Case::TreeTree { a, b, op, elim_a } => {
            // second pass for small operands: both built over arenas whose root was replaced with add_root (root not
            // at node 0, a former tree left behind unreachable)
            let passes = if a.n_nodes() <= 3 && b.n_nodes() <= 3 { 2 } else { 1 };
            for rr in 0..passes {
            let rec = json!({"a": a.to_json(), "b": b.to_json(), "op": op.to_string(), "a_eliminated_first": elim_a, "rerooted": rr == 1});
            // operand storage: every combination of row-major / column-major matrices, re-used indices
            // (incl. depth-first against interleaved: the same indices with the children attached in the other order)
            let lsel = (a.n_nodes() * 3 + b.n_nodes() + (*op as usize)) % 6;
            let mut ta: AffTree<2> = if rr == 1 { a.build_rerooted((lsel % 2) as u8) } else { a.build_layout([0u8, 3, 2, 3, 0, 4][lsel]) };
            let tb: AffTree<2> = if rr == 1 { b.build_rerooted((lsel / 2 % 2) as u8) } else { b.build_layout([3u8, 0, 3, 1, 4, 0][lsel]) };
            let sa0 = snap(&ta);
            if *elim_a {
                if catch(|| ta.infeasible_elimination()).is_err() {
                    return out;
                }
            }
            if rr == 1 {
                out.add("rerooted_operand_pairs", 1);
            }
            let sb = snap(&tb);
            let (sa_ref, sb_ref) = (sa0.clone(), sb.clone());
            let opc = *op;
            let reference = FnSide(move |x: &[Q], g: &mut Vec<Form>| {
                let n = sa_ref.in_dim;
                let id = AffMap::identity(n);
                let ra = sa_ref.route(&id, n, x, g)?;
                let rb = sb_ref.route(&id, n, x, g)?;
                match (ra, rb) {
                    (Some((_, ma)), Some((_, mb))) => Ok(Some(coefwise(opc, &ma, &mb)?)),
                    _ => Ok(None),
                }
            });
            let variants: Vec<(&str, Box<dyn Fn() -> AffTree<2>>)> = vec![
                ("&a op &b", Box::new(|| apply_op(opc, &ta, &tb))),
                ("a op &b", Box::new(|| apply_op(opc, ta.clone(), &tb))),
                ("a op b", Box::new(|| apply_op(opc, ta.clone(), tb.clone()))),
                ("&a op b", Box::new(|| apply_op(opc, &ta, tb.clone()))),
            ];
            let mut first: Option<Snap> = None;
            for (name, f) in variants {
                out.add("real_executions", 1);
                match catch(|| f()) {
                    Err(m) => {
                        out.violate(Violation::new(format!("tree {op} tree ({name}) panicked: {m}"), rec.clone()).tag("kind", "panic").tag("op", format!("tree{op}tree")));
                        break;
                    }
                    Ok(res) => {
                        let s = snap(&res);
                        if first.as_ref() == Some(&s) {
                            out.add("variants_identical_to_first", 1);
                            continue;
                        }
                        if first.is_none() {
                            first = Some(s);
                        }
                        judge(&sa0, Some(&sb), &res, &reference, &mut out, &rec, name, format!("tree{op}tree"));
                    }
                }
            }
            if snap(&tb) != sb {
                out.violate(Violation::new("right operand changed", rec.clone()).tag("kind", "rhs_changed"));
            }
            if out.sample.is_none() && a.n_nodes() > 1 && b.n_nodes() > 1 {
                out.sample = Some(rec);
            }
            }
        }
        Case::TreeAff { a, f, op, elim_a } => {
            let rec = json!({"a": a.to_json(), "f": f.to_json(), "op": op.to_string(), "a_eliminated_first": elim_a});
            let mut ta: AffTree<2> = a.build_layout((a.n_nodes() % 5) as u8);
            if *elim_a && catch(|| ta.infeasible_elimination()).is_err() {
                return out;
            }
            let sa = snap(&ta);
            let fr = if a.n_nodes() % 3 == 0 { f.to_real() } else { f.to_real_f() };
            let fm = f.to_map();
            let opc = *op;
            // f / a divides by a's terminal coefficients: only meaningful when none of them is zero
            let a_nonzero = sa.nodes.values().filter(|n| n.isleaf).all(|n| n.mat.iter().flatten().all(|v| !v.is_zero()) && n.bias.iter().all(|v| !v.is_zero()));
            for left in [false, true] {
                if left && opc == '/' && !a_nonzero {
                    continue;
                }
                let (sa_ref, fm2) = (sa.clone(), fm.clone());
                let reference = FnSide(move |x: &[Q], g: &mut Vec<Form>| {
                    let n = sa_ref.in_dim;
                    match sa_ref.route(&AffMap::identity(n), n, x, g)? {
                        None => Ok(None),
                        Some((_, ma)) => Ok(Some(if left { coefwise(opc, &fm2, &ma)? } else { coefwise(opc, &ma, &fm2)? })),
                    }
                });
                let variants: Vec<(&str, Box<dyn Fn() -> AffTree<2>>)> = if left {
                    vec![("f op a", Box::new(|| apply_op(opc, fr.clone(), ta.clone()))), ("&f op a", Box::new(|| apply_op(opc, &fr, ta.clone())))]
                } else {
                    vec![("a op f", Box::new(|| apply_op(opc, ta.clone(), fr.clone()))), ("a op &f", Box::new(|| apply_op(opc, ta.clone(), &fr)))]
                };
                for (name, fun) in variants {
                    out.add("real_executions", 1);
                    match catch(|| fun()) {
                        Err(m) => out.violate(Violation::new(format!("{name} with op {op} panicked: {m}"), rec.clone()).tag("kind", "panic").tag("op", format!("affine{op}"))),
                        Ok(res) => judge(&sa, None, &res, &reference, &mut out, &rec, name, format!("{}{op}{}", if left { "aff" } else { "tree" }, if left { "tree" } else { "aff" })),
                    }
                }
            }
        }
        Case::Neg { a, elim_a } => {
            let rec = json!({"a": a.to_json(), "op": "neg", "a_eliminated_first": elim_a});
            let mut ta: AffTree<2> = a.build_layout((a.n_nodes() % 5) as u8);
            if *elim_a && catch(|| ta.infeasible_elimination()).is_err() {
                return out;
            }
            let sa = snap(&ta);
            let sa_ref = sa.clone();
            let reference = FnSide(move |x: &[Q], g: &mut Vec<Form>| {
                let n = sa_ref.in_dim;
                Ok(sa_ref.route(&AffMap::identity(n), n, x, g)?.map(|(_, m)| AffMap { m: m.m.iter().map(|r| r.iter().map(|v| -v).collect()).collect(), c: m.c.iter().map(|v| -v).collect() }))
            });
            out.add("real_executions", 1);
            match catch(|| -ta.clone()) {
                Err(m) => out.violate(Violation::new(format!("neg panicked: {m}"), rec.clone()).tag("kind", "panic").tag("op", "neg")),
                Ok(res) => judge(&sa, None, &res, &reference, &mut out, &rec, "-a", "neg".into()),
            }
        }
    }
    out
}

pub fn run(tier: Tier) -> Report {
    set_delta(1e-7);
    let mut rep = Report::new("C07", tier, "model_checking");
    let cs = cases(tier);
    rep.set("programs", cs.len() as u64);
    let total = par_cases(&cs, |_, c| run_case(c));
    rep.absorb(total);
    rep.set("bound", match tier {
        Tier::Quick => "pairs of generator trees (depth <= 2, <= 5 nodes, total and partial, shared parallel predicates) for (in,out) dims (1,1),(2,1),(1,2),(2,2) x {+,-,*,/} x 4 ownership variants; tree-affine pairs x 4 operators x {a op f, a op &f, f op a, &f op a}; negation; every 4th left operand of a tree-tree pair, every 2nd of a tree-affine pair and every negated tree (once with, once without) went through infeasible_elimination first (cached states, holes in the arena)",
        Tier::Thorough => "same with <= 7 nodes and denser selection of larger trees",
    });
    rep.assume("divisor coefficients are non-zero dyadics so that quotients are exact; disagreements count only where the intersection of both operands' route regions is fat");
    rep
}
