//! C03 — pruning never changes the represented (partial) function.
use super::common::*;
use crate::gen::{Aff, TSpec, TreeGen};
use crate::hist::{GSpec, Init, Op};
use crate::report::{par_cases, CaseOut, Report, Tier, Violation};
use crate::snap::{conform_face, snap};
use affinitree::pwl::afftree::AffTree;
use serde_json::json;

#[derive(Clone, Debug)]
pub struct Case {
    pub init: Init,
    pub ops: Vec<Op>,
}

fn r1(a: &[f64], b: f64) -> Aff {
    Aff::row1(a, b)
}

pub fn user_trees(d: usize) -> Vec<TSpec> {
    if d == 1 {
        vec![
            // partial: defined only for y <= 1
            TSpec::Dec(r1(&[1.0], 1.0), vec![None, Some(TSpec::Leaf(r1(&[2.0], 0.0)))]),
            // partial and nested: a single-child decision above a full decision (y <= 2 ? (y <= 0 ? -y : y) : undefined)
            TSpec::Dec(r1(&[1.0], 2.0), vec![None, Some(TSpec::Dec(r1(&[1.0], 0.0), vec![Some(TSpec::Leaf(r1(&[1.0], 0.0))), Some(TSpec::Leaf(r1(&[-1.0], 0.0)))]))]),
            // partial: defined only for y > 0 (the only child hangs on label 0)
            TSpec::Dec(r1(&[1.0], 0.0), vec![Some(TSpec::Leaf(r1(&[1.0], 1.0))), None]),
            // y <= 0 ? (3y >= -1 ? y : -1) : 3   (a row that is not of unit length and does not scale exactly in f64)
            TSpec::Dec(
                r1(&[1.0], 0.0),
                vec![Some(TSpec::Leaf(r1(&[0.0], 3.0))), Some(TSpec::Dec(r1(&[-3.0], 1.0), vec![Some(TSpec::Leaf(r1(&[0.0], -1.0))), Some(TSpec::Leaf(r1(&[1.0], 0.0)))]))],
            ),
        ]
    } else {
        vec![
            TSpec::Dec(r1(&[1.0, -1.0], 0.0), vec![None, Some(TSpec::Leaf(Aff::identity(2)))]),
            TSpec::Dec(r1(&[1.0, 2.0], 1.0), vec![Some(TSpec::Leaf(Aff::identity(2))), None]),
            TSpec::Dec(r1(&[0.0, 1.0], 2.0), vec![None, Some(TSpec::Dec(r1(&[1.0, 0.0], 0.0), vec![Some(TSpec::Leaf(Aff::identity(2))), Some(TSpec::Leaf(Aff::new(vec![vec![-1.0, 0.0], vec![0.0, 1.0]], vec![0.0, 0.0])))]))]),
            TSpec::Dec(
                r1(&[1.0, 0.0], 0.0),
                vec![Some(TSpec::Leaf(Aff::new(vec![vec![0.0, 1.0], vec![1.0, 0.0]], vec![0.0, 0.0]))), Some(TSpec::Dec(r1(&[0.0, 1.0], 0.0), vec![None, Some(TSpec::Leaf(Aff::identity(2)))]))],
            ),
        ]
    }
}

pub fn ops_for(d: usize, tier: Tier) -> Vec<Op> {
    let mut gs: Vec<GSpec> = vec![];
    if d == 1 {
        gs.extend([
            GSpec::Relu(0), GSpec::Leaky(0, 0.5), GSpec::HardTanh(0), GSpec::HardShrink(0, 1.0), GSpec::Threshold(0, 0.0, 2.0),
            GSpec::FromPoly(vec![(vec![1.0], 1.0), (vec![-1.0], 1.0)], false),
            GSpec::FromPoly(vec![(vec![1.0], 1.0), (vec![-1.0], 1.0)], true),
            GSpec::FromPoly(vec![(vec![1.0], 0.0), (vec![-1.0], -1.0)], false),
            GSpec::FromPoly(vec![(vec![1.0], 0.0), (vec![-1.0], 0.0)], false),
        ]);
    } else {
        gs.extend([
            GSpec::Relu(0), GSpec::Relu(1), GSpec::HardTanh(0), GSpec::Leaky(1, -1.0), GSpec::Argmax, GSpec::ClassChar(0), GSpec::ClassChar(1),
            GSpec::FromPoly(vec![(vec![1.0, 0.0], 1.0), (vec![-1.0, 0.0], 1.0), (vec![0.0, 1.0], 1.0), (vec![0.0, -1.0], 1.0)], false),
            GSpec::FromPoly(vec![(vec![1.0, 1.0], 0.0), (vec![-1.0, -1.0], -1.0)], false),
        ]);
        if tier == Tier::Thorough {
            gs.extend([GSpec::HardTanh(1), GSpec::HardShrink(0, 0.5), GSpec::FromPoly(vec![(vec![1.0, -1.0], 0.0), (vec![-1.0, 1.0], 0.0)], true)]);
        }
    }
    for u in user_trees(d) {
        gs.push(GSpec::User(u));
    }
    // operands with cached feasibility states of their own
    gs.push(GSpec::Eliminated(Box::new(GSpec::HardTanh(0))));
    gs.push(GSpec::Eliminated(Box::new(GSpec::User(user_trees(d)[1].clone()))));
    // ... and with holes in its arena: the "then" terminal of an empty polytope is pruned away
    gs.push(GSpec::Eliminated(Box::new(if d == 1 {
        GSpec::FromPoly(vec![(vec![1.0], 0.0), (vec![-1.0], -1.0)], true)
    } else {
        GSpec::FromPoly(vec![(vec![1.0, 1.0], 0.0), (vec![-1.0, -1.0], -1.0)], true)
    })));
    let mut ops = vec![Op::Elim];
    for g in gs {
        ops.push(Op::Compose(g.clone(), false));
        ops.push(Op::Compose(g, true));
    }
    let affs: Vec<Aff> = if d == 1 {
        vec![r1(&[-1.0], 0.0), r1(&[2.0], -1.0), r1(&[1.0], 1.0), Aff::new(vec![vec![1.0], vec![-1.0]], vec![0.0, 1.0])]
    } else {
        vec![
            Aff::new(vec![vec![0.0, 1.0], vec![1.0, 0.0]], vec![0.0, 0.0]),
            Aff::new(vec![vec![1.0, 1.0], vec![1.0, -1.0]], vec![0.0, 1.0]),
            r1(&[1.0, -1.0], 0.0),
            Aff::new(vec![vec![-1.0, 0.0], vec![0.0, 2.0]], vec![1.0, -1.0]),
        ]
    };
    for a in affs {
        ops.push(Op::Apply(a));
    }
    ops
}

pub fn inits(tier: Tier) -> Vec<Init> {
    let mut v = vec![];
    // 1-D generator trees with parallel predicates: plenty of infeasible and thin paths
    let g1 = TreeGen {
        k: 2,
        preds: vec![r1(&[1.0], 0.0), r1(&[1.0], 1.0), r1(&[-1.0], -2.0), r1(&[-1.0], 0.0)],
        terms: vec![r1(&[1.0], 0.0), r1(&[-1.0], 1.0)],
        max_depth: 3,
        max_nodes: if tier == Tier::Quick { 7 } else { 8 },
        partial: true,
    };
    let keep = if tier == Tier::Quick { 211 } else { 211 };
    for (i, t) in g1.all().into_iter().enumerate() {
        if t.n_nodes() <= 3 || i % keep == 0 {
            v.push(Init::Spec(t));
        }
    }
    let g2 = TreeGen {
        k: 2,
        preds: vec![r1(&[1.0, 0.0], 0.0), r1(&[1.0, -1.0], 0.0), r1(&[-1.0, 0.0], -1.0), r1(&[1.0, 1.0], 1.0)],
        terms: vec![Aff::identity(2), Aff::new(vec![vec![0.0, 1.0], vec![1.0, 0.0]], vec![1.0, 0.0])],
        max_depth: 3,
        max_nodes: if tier == Tier::Quick { 7 } else { 8 },
        partial: true,
    };
    let keep2 = if tier == Tier::Quick { 449 } else { 397 };
    for (i, t) in g2.all().into_iter().enumerate() {
        if t.n_nodes() <= 3 || i % keep2 == 0 {
            v.push(Init::Spec(t));
        }
    }
    v.push(Init::FromAff(r1(&[1.0], 0.0)));
    v.push(Init::FromAff(r1(&[-2.0], 1.0)));
    v.push(Init::FromAff(Aff::new(vec![vec![1.0], vec![-1.0]], vec![0.0, 1.0])));
    v.push(Init::FromAff(Aff::identity(2)));
    v.push(Init::FromAff(Aff::new(vec![vec![1.0, 1.0], vec![1.0, -1.0]], vec![0.0, 0.0])));
    v.push(Init::FromAff(Aff::new(vec![vec![1.0, 0.0], vec![1.0, 0.0]], vec![0.0, -1.0])));
    v.push(Init::FromPoly(vec![(vec![1.0], 1.0), (vec![-1.0], 1.0)], r1(&[1.0], 0.0), None));
    v.push(Init::FromPoly(vec![(vec![1.0], 0.0), (vec![-1.0], -1.0)], r1(&[1.0], 0.0), None));
    v.push(Init::FromPoly(vec![(vec![1.0, 0.0], 0.0), (vec![0.0, 1.0], 0.0)], Aff::identity(2), Some(Aff::new(vec![vec![0.0, 0.0], vec![0.0, 0.0]], vec![1.0, 1.0]))));
    v
}

/// history length limit for an initial tree
pub fn limit_for(init: &Init, tier: Tier) -> usize {
    let maxlen = match tier { Tier::Quick => 3, Tier::Thorough => 4 };
    let simple = matches!(init, Init::FromAff(_) | Init::FromPoly(..));
    if simple {
        if tier == Tier::Thorough && init.in_dim() != 1 { 3 } else { maxlen }
    } else {
        2
    }
}

/// successors of a history (dimension-compatible operations)
pub fn next_ops(d: usize, ops: &[Op], tier: Tier) -> Vec<Op> {
    ops_for(d, tier)
        .into_iter()
        .filter(|op| op.fits(d) && !(*op == Op::Elim && ops.last() == Some(&Op::Elim)) && op.out_dim(d) <= 2)
        .collect()
}

/// enumerate all cases of one initial tree (histories ending in a pruning operation)
pub fn for_each_history(init: &Init, tier: Tier, f: &mut dyn FnMut(&[Op])) {
    let lim = limit_for(init, tier);
    fn rec(d: usize, ops: &mut Vec<Op>, lim: usize, tier: Tier, f: &mut dyn FnMut(&[Op])) {
        if !ops.is_empty() && ops.last().unwrap().prunes() {
            f(ops);
        }
        if ops.len() == lim {
            return;
        }
        for op in next_ops(d, ops, tier) {
            let nd = op.out_dim(d);
            ops.push(op);
            rec(nd, ops, lim, tier, f);
            ops.pop();
        }
    }
    rec(init.out_dim(), &mut vec![], lim, tier, f);
}

/// every `stride`-th case of the whole space (used by C11)
pub fn cases_strided(tier: Tier, stride: usize) -> Vec<Case> {
    let mut out = vec![];
    let mut k = 0usize;
    for init in inits(tier) {
        for_each_history(&init, tier, &mut |ops| {
            if k % stride == 0 {
                out.push(Case { init: init.clone(), ops: ops.to_vec() });
            }
            k += 1;
        });
    }
    out
}

pub fn cases(tier: Tier) -> Vec<Case> {
    cases_strided(tier, 1)
}

/// Incremental exploration of all histories of one initial tree: the pruned and the un-pruned
/// track are carried along, every history ending in a pruning operation is judged.
pub fn run_init(init: &Init, first: &[usize], tier: Tier) -> CaseOut {
    let mut out = CaseOut::default();
    let lim = limit_for(init, tier);
    let p = init.build();
    let u = init.build();
    fn rec(init: &Init, p: &AffTree<2>, u: &AffTree<2>, d: usize, ops: &mut Vec<Op>, lim: usize, tier: Tier, out: &mut CaseOut, first: &[usize]) {
        if ops.len() == lim {
            return;
        }
        for (oi, op) in next_ops(d, ops, tier).into_iter().enumerate() {
            // the task's prefix fixes the first operations; a history is judged by the task whose prefix it
            // extends (the last prefix element's own history is judged by this task as well)
            if let Some(f) = first.get(ops.len()) {
                if oi != *f {
                    continue;
                }
            }
            let nd = op.out_dim(d);
            let mut p2 = p.clone();
            let mut u2 = u.clone();
            ops.push(op.clone());
            out.add("real_executions", 1);
            let before = if op == Op::Elim { Some(snap(p)) } else { None };
            let res = if ops.len() <= 1 { op.run_both(&mut p2, d) } else { op.run(&mut p2, d) };
            match res {
                Err(msg) => {
                    if op.prunes() {
                        let rec = json!({"init": init.to_json(), "ops": ops.iter().map(|o| o.to_json()).collect::<Vec<_>>()});
                        let (kind, text) = op.failure(&msg);
                        out.violate(Violation::new(text, rec).tag("kind", kind).tag("op", op.name()));
                    }
                }
                Ok(()) => {
                    let uok = match op.unpruned() {
                        Some(uo) => uo.run(&mut u2, d).is_ok(),
                        None => true,
                    };
                    if uok {
                        // histories shorter than the prefix belong to the task with the shorter prefix
                        if op.prunes() && judged_here(first, ops.len()) {
                            out.add("programs", 1);
                            judge(init, ops, &p2, &u2, before.as_ref(), out);
                        }
                        rec(init, &p2, &u2, nd, ops, lim, tier, out, first);
                    }
                }
            }
            ops.pop();
        }
    }
    rec(init, &p, &u, init.out_dim(), &mut vec![], lim, tier, &mut out, first);
    out
}

/// which history lengths a task judges: prefix [a] judges everything below a; prefix [a, MAX] judges the
/// one-step history [a] only; prefix [a, b] judges the histories of length >= 2 that start with a, b
fn judged_here(first: &[usize], len: usize) -> bool {
    if first.len() == 2 && first[1] == usize::MAX {
        len == 1
    } else {
        len >= first.len()
    }
}

fn judge(init: &Init, ops: &[Op], p: &AffTree<2>, u: &AffTree<2>, before_last: Option<&crate::snap::Snap>, out: &mut CaseOut) {
    let rec = || json!({"init": init.to_json(), "ops": ops.iter().map(|o| o.to_json()).collect::<Vec<_>>()});
    let sp = snap(p);
    let su = snap(u);
    let mut conf = 0u64;
    let mut conf_err = None;
    let judged = compare_pruned(&su, &sp, out, &mut |face| {
        let (n, e) = conform_face(p, &sp, face, true);
        conf += n;
        if let Some(e) = e {
            conf_err = Some(e)
        }
    });
    out.add("traces_validated_against_impl", conf);
    if let Some(e) = conf_err {
        out.violate(Violation::new(format!("real evaluator disagrees with documented routing: {e}"), rec()).tag("kind", "conformance"));
    }
    let lastop = ops.last().unwrap();
    for m in judged.iter().take(2) {
        let mut r = rec();
        r["mismatch"] = m.to_json();
        r["pruned_arena"] = sp.to_json();
        r["unpruned_arena"] = su.to_json();
        out.violate(
            Violation::new(format!("pruned != unpruned after {}: {}", opname(lastop), mismatch_summary(m)), r)
                .tag("kind", "function").tag("op", opname(lastop)).tag("what", match m.kind { crate::regions::MismatchKind::Defined(a, _) => if a { "became_defined" } else { "became_undefined" }, _ => "value" }),
        );
    }
    if *lastop == Op::Elim {
        let sb = before_last.unwrap();
        for (tag, msg) in structural_elim(sb, &sp).into_iter().take(2) {
            let mut r = rec();
            r["before_arena"] = sb.to_json();
            r["after_arena"] = sp.to_json();
            out.violate(Violation::new(format!("infeasible_elimination: {msg}"), r).tag("kind", "structure").tag("what", tag));
        }
        out.add("structural_checks", 1);
    }
    if out.sample.is_none() && ops.len() >= 2 {
        out.sample = Some(json!({"history": rec(), "nodes_pruned": sp.nodes.len(), "nodes_unpruned": su.nodes.len()}));
    }
}

pub fn run_case(c: &Case) -> CaseOut {
    let mut out = CaseOut::default();
    let rec = || json!({"init": c.init.to_json(), "ops": c.ops.iter().map(|o| o.to_json()).collect::<Vec<_>>()});
    let mut p = c.init.build(); // pruned track
    let mut u = c.init.build(); // unpruned track
    let mut d = c.init.out_dim();
    let last = c.ops.len() - 1;
    let mut before_last = None;
    for (i, op) in c.ops.iter().enumerate() {
        if i == last {
            before_last = Some(snap(&p));
        }
        out.add("real_executions", 1);
        if let Err(msg) = op.run_both(&mut p, d) {
            if i == last {
                let (kind, text) = op.failure(&msg);
                out.violate(Violation::new(format!("{:?}: {text}", op.to_json().to_string()), rec()).tag("kind", kind).tag("op", opname(op)));
            }
            return out; // a failing prefix is reported by the shorter case
        }
        if let Some(uop) = op.unpruned() {
            if uop.run(&mut u, d).is_err() {
                return out;
            }
        }
        d = op.out_dim(d);
    }
    let sp = snap(&p);
    let su = snap(&u);
    let mut conf = 0u64;
    let mut conf_err = None;
    let exact_values = sp.is_small_dyadic();
    let judged = compare_pruned(&su, &sp, &mut out, &mut |face| {
        let (n, e) = conform_face(&p, &sp, face, exact_values);
        conf += n;
        if let Some(e) = e {
            conf_err = Some(e)
        }
    });
    out.add("traces_validated_against_impl", conf);
    if let Some(e) = conf_err {
        out.violate(Violation::new(format!("real evaluator disagrees with documented routing: {e}"), rec()).tag("kind", "conformance"));
    }
    let lastop = c.ops.last().unwrap();
    for m in judged.iter().take(2) {
        let mut r = rec();
        r["mismatch"] = m.to_json();
        r["pruned_arena"] = sp.to_json();
        r["unpruned_arena"] = su.to_json();
        out.violate(
            Violation::new(format!("pruned != unpruned after {}: {}", opname(lastop), mismatch_summary(m)), r)
                .tag("kind", "function").tag("op", opname(lastop)).tag("what", match m.kind { crate::regions::MismatchKind::Defined(a, _) => if a { "became_defined" } else { "became_undefined" }, _ => "value" }),
        );
    }
    if *lastop == Op::Elim {
        let sb = before_last.unwrap();
        for (tag, msg) in structural_elim(&sb, &sp).into_iter().take(2) {
            let mut r = rec();
            r["before_arena"] = sb.to_json();
            r["after_arena"] = sp.to_json();
            out.violate(Violation::new(format!("infeasible_elimination: {msg}"), r).tag("kind", "structure").tag("what", tag));
        }
        out.add("structural_checks", 1);
    }
    if out.sample.is_none() && c.ops.len() >= 2 {
        out.sample = Some(json!({"history": rec(), "nodes_pruned": sp.nodes.len(), "nodes_unpruned": su.nodes.len()}));
    }
    out
}

fn opname(op: &Op) -> &'static str {
    op.name()
}

fn wedge_cases() -> Vec<Case> {
    let mut v = vec![];
    let first = TSpec::Dec(r1(&[0.0, 1.0], 1000.0), vec![Some(TSpec::Leaf(Aff::identity(2))), Some(TSpec::Leaf(Aff::identity(2)))]);
    let konst = |c: f64| Some(TSpec::Leaf(r1(&[0.0, 0.0], c)));
    for s in [1.0f64, 1e3, 1e6, 1e8] {
        for eps in [0.1f64, 0.01, 0.125] {
            for (px, py) in [(0.1f64, 0.7f64), (1.3, -2.1), (0.0, 0.0), (1.0 / 3.0, 1.0 / 7.0)] {
                let c1 = r1(&[-eps * s, s], (-eps * px + py) * s);
                let c2 = r1(&[-eps * s, -s], (-eps * px - py) * s);
                let wedge = TSpec::Dec(c1, vec![konst(7.0), Some(TSpec::Dec(c2, vec![konst(8.0), konst(2.0)]))]);
                v.push(Case { init: Init::Spec(first.clone()), ops: vec![Op::Compose(GSpec::User(wedge.clone()), true)] });
                v.push(Case { init: Init::Spec(first.clone()), ops: vec![Op::Apply(r1(&[1.0, 1.0], 0.5)), Op::Arith('+', wedge.clone())] });
                v.push(Case { init: Init::Spec(first.clone()), ops: vec![Op::Compose(GSpec::User(wedge), false), Op::Elim] });
            }
        }
    }
    v
}

pub fn run(tier: Tier) -> Report {
    set_delta(1e-7);
    let mut rep = Report::new("C03", tier, "model_checking");
    let t0 = std::time::Instant::now();
    let is = inits(tier);
    if std::env::var("VERIF_TIMING").is_ok() { eprintln!("inits: {:.1}s", t0.elapsed().as_secs_f64()); }
    rep.set("initial_trees", is.len() as u64);
    // one task per (initial tree, first operation); the long histories first
    let mut tasks: Vec<(Init, Vec<usize>)> = vec![];
    for init in &is {
        let ops0 = next_ops(init.out_dim(), &[], tier);
        for (k, op0) in ops0.iter().enumerate() {
            if limit_for(init, tier) >= 3 {
                // long histories: one task per pair of first operations, plus one for the one-step history
                tasks.push((init.clone(), vec![k, usize::MAX]));
                let d1 = op0.out_dim(init.out_dim());
                for k2 in 0..next_ops(d1, &[op0.clone()], tier).len() {
                    tasks.push((init.clone(), vec![k, k2]));
                }
            } else {
                tasks.push((init.clone(), vec![k]));
            }
        }
    }
    tasks.sort_by_key(|(i, _)| std::cmp::Reverse(limit_for(i, tier)));
    if std::env::var("VERIF_TIMING").is_ok() { eprintln!("tasks: {:.1}s ({})", t0.elapsed().as_secs_f64(), tasks.len()); }
    let total = par_cases(&tasks, |_, (init, k)| run_init(init, k, tier));
    if std::env::var("VERIF_TIMING").is_ok() { eprintln!("explored: {:.1}s", t0.elapsed().as_secs_f64()); }
    rep.absorb(total);
    // sharp wedges eps*(x-px) >= |y-py| with rows scaled by up to 1e8 grafted below a non-root terminal: the LP
    // vertex of the wedge's path polytope misses the absolute 1e-8 tolerance of `contains`, the wedge is fat
    let mut wc = wedge_cases();
    // two small factors: a predicate 2^-20 y <= b grafted onto terminals 2^-20 x (the composed coefficient is 2^-40)
    {
        let t20 = 2f64.powi(-20);
        let first = TSpec::Dec(r1(&[1.0], 1000.0), vec![Some(TSpec::Leaf(r1(&[t20], 0.0))), Some(TSpec::Leaf(r1(&[-t20], t20)))]);
        for b in [0.0, t20 * t20 * 8.0, -t20] {
            let g = TSpec::Dec(r1(&[t20], b), vec![Some(TSpec::Leaf(r1(&[0.0], 1.0))), Some(TSpec::Leaf(r1(&[0.0], 2.0)))]);
            wc.push(Case { init: Init::Spec(first.clone()), ops: vec![Op::Compose(GSpec::User(g.clone()), true)] });
            wc.push(Case { init: Init::Spec(first.clone()), ops: vec![Op::Compose(GSpec::User(g), false), Op::Elim] });
        }
    }
    // right operands over arenas re-rooted with add_root (root not at node 0, a former tree with a shifted terminal
    // left behind): every initial tree with <= 3 nodes and every from_aff / from_poly root x every user tree, pruned
    // composition and un-pruned composition followed by infeasible_elimination
    {
        let mut n = 0u64;
        for init in is.iter().filter(|i| match i { Init::Spec(t) => t.n_nodes() <= 3, Init::FromAff(_) | Init::FromPoly(..) => true, _ => false }) {
            let d = init.out_dim();
            if d == 0 || d > 2 {
                continue;
            }
            for g in user_trees(d) {
                wc.push(Case { init: init.clone(), ops: vec![Op::Compose(GSpec::Rerooted(g.clone()), true)] });
                wc.push(Case { init: init.clone(), ops: vec![Op::Compose(GSpec::Rerooted(g), false), Op::Elim] });
                n += 2;
            }
        }
        rep.set("rerooted_operand_histories", n);
    }
    // regions millions / billions of units from the origin
    wc.extend(super::c11::far_programs(1e6));
    wc.extend(super::c11::far_programs(1e9));
    rep.set("wedge_histories", wc.len() as u64);
    let tw = par_cases(&wc, |_, c| run_case(c));
    rep.absorb(tw);
    rep.set("bound", match tier {
        Tier::Quick => "histories of <= 3 operations (<= 2 from generator trees) over {infeasible_elimination, compose pruned/unpruned with 11-13 right operands, apply_func with 4 maps} ending in a pruning operation, from 1-D/2-D generator trees (<= 7 nodes, parallel/concurrent predicates, partial) and from_aff/from_poly roots",
        Tier::Thorough => "histories of <= 4 operations from one-input from_aff/from_poly roots, <= 3 from two-input ones, <= 2 from generator trees with <= 8 nodes (denser selection)",
    });
    rep.assume("a disagreement counts only where the closed region of the unpruned route is fat (some point with slack >= 1e-7 * max(1,|row|_1) in every row)");
    rep
}
