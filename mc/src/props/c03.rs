//! C03 — pruning never changes the represented (partial) function.
use super::common::*;
use crate::gen::{Aff, TSpec, TreeGen};
use crate::hist::{GSpec, Init, Op};
use crate::report::{par_cases, CaseOut, Report, Tier, Violation};
use crate::snap::{conform, snap};
use serde_json::json;

#[derive(Clone, Debug)]
pub struct Case {
    pub init: Init,
    pub ops: Vec<Op>,
}

fn r1(a: &[f64], b: f64) -> Aff {
    Aff::row1(a, b)
}

pub fn user_trees(d: usize) -> Vec<TSpec> {
    if d == 1 {
        vec![
            // partial: defined only for y <= 1
            TSpec::Dec(r1(&[1.0], 1.0), vec![None, Some(TSpec::Leaf(r1(&[2.0], 0.0)))]),
            // y <= 0 ? (y >= -1 ? y : -1) : 3
            TSpec::Dec(
                r1(&[1.0], 0.0),
                vec![Some(TSpec::Leaf(r1(&[0.0], 3.0))), Some(TSpec::Dec(r1(&[-1.0], 1.0), vec![Some(TSpec::Leaf(r1(&[0.0], -1.0))), Some(TSpec::Leaf(r1(&[1.0], 0.0)))]))],
            ),
        ]
    } else {
        vec![
            TSpec::Dec(r1(&[1.0, -1.0], 0.0), vec![None, Some(TSpec::Leaf(Aff::identity(2)))]),
            TSpec::Dec(
                r1(&[1.0, 0.0], 0.0),
                vec![Some(TSpec::Leaf(Aff::new(vec![vec![0.0, 1.0], vec![1.0, 0.0]], vec![0.0, 0.0]))), Some(TSpec::Dec(r1(&[0.0, 1.0], 0.0), vec![None, Some(TSpec::Leaf(Aff::identity(2)))]))],
            ),
        ]
    }
}

pub fn ops_for(d: usize, tier: Tier) -> Vec<Op> {
    let mut gs: Vec<GSpec> = vec![];
    if d == 1 {
        gs.extend([
            GSpec::Relu(0), GSpec::Leaky(0, 0.5), GSpec::HardTanh(0), GSpec::HardShrink(0, 1.0), GSpec::Threshold(0, 0.0, 2.0),
            GSpec::FromPoly(vec![(vec![1.0], 1.0), (vec![-1.0], 1.0)], false),
            GSpec::FromPoly(vec![(vec![1.0], 1.0), (vec![-1.0], 1.0)], true),
            GSpec::FromPoly(vec![(vec![1.0], 0.0), (vec![-1.0], -1.0)], false),
            GSpec::FromPoly(vec![(vec![1.0], 0.0), (vec![-1.0], 0.0)], false),
        ]);
    } else {
        gs.extend([
            GSpec::Relu(0), GSpec::Relu(1), GSpec::HardTanh(0), GSpec::Leaky(1, -1.0), GSpec::Argmax, GSpec::ClassChar(0), GSpec::ClassChar(1),
            GSpec::FromPoly(vec![(vec![1.0, 0.0], 1.0), (vec![-1.0, 0.0], 1.0), (vec![0.0, 1.0], 1.0), (vec![0.0, -1.0], 1.0)], false),
            GSpec::FromPoly(vec![(vec![1.0, 1.0], 0.0), (vec![-1.0, -1.0], -1.0)], false),
        ]);
        if tier == Tier::Thorough {
            gs.extend([GSpec::HardTanh(1), GSpec::HardShrink(0, 0.5), GSpec::FromPoly(vec![(vec![1.0, -1.0], 0.0), (vec![-1.0, 1.0], 0.0)], true)]);
        }
    }
    for u in user_trees(d) {
        gs.push(GSpec::User(u));
    }
    let mut ops = vec![Op::Elim];
    for g in gs {
        ops.push(Op::Compose(g.clone(), false));
        ops.push(Op::Compose(g, true));
    }
    let affs: Vec<Aff> = if d == 1 {
        vec![r1(&[-1.0], 0.0), r1(&[2.0], -1.0), r1(&[1.0], 1.0), Aff::new(vec![vec![1.0], vec![-1.0]], vec![0.0, 1.0])]
    } else {
        vec![
            Aff::new(vec![vec![0.0, 1.0], vec![1.0, 0.0]], vec![0.0, 0.0]),
            Aff::new(vec![vec![1.0, 1.0], vec![1.0, -1.0]], vec![0.0, 1.0]),
            r1(&[1.0, -1.0], 0.0),
            Aff::new(vec![vec![-1.0, 0.0], vec![0.0, 2.0]], vec![1.0, -1.0]),
        ]
    };
    for a in affs {
        ops.push(Op::Apply(a));
    }
    ops
}

pub fn inits(tier: Tier) -> Vec<Init> {
    let mut v = vec![];
    // 1-D generator trees with parallel predicates: plenty of infeasible and thin paths
    let g1 = TreeGen {
        k: 2,
        preds: vec![r1(&[1.0], 0.0), r1(&[1.0], 1.0), r1(&[-1.0], -2.0), r1(&[-1.0], 0.0)],
        terms: vec![r1(&[1.0], 0.0), r1(&[-1.0], 1.0)],
        max_depth: 3,
        max_nodes: if tier == Tier::Quick { 7 } else { 9 },
        partial: true,
    };
    let keep = if tier == Tier::Quick { 97 } else { 23 };
    for (i, t) in g1.all().into_iter().enumerate() {
        if t.n_nodes() <= 3 || i % keep == 0 {
            v.push(Init::Spec(t));
        }
    }
    let g2 = TreeGen {
        k: 2,
        preds: vec![r1(&[1.0, 0.0], 0.0), r1(&[1.0, -1.0], 0.0), r1(&[-1.0, 0.0], -1.0), r1(&[1.0, 1.0], 1.0)],
        terms: vec![Aff::identity(2), Aff::new(vec![vec![0.0, 1.0], vec![1.0, 0.0]], vec![1.0, 0.0])],
        max_depth: 3,
        max_nodes: if tier == Tier::Quick { 7 } else { 9 },
        partial: true,
    };
    let keep2 = if tier == Tier::Quick { 211 } else { 53 };
    for (i, t) in g2.all().into_iter().enumerate() {
        if t.n_nodes() <= 3 || i % keep2 == 0 {
            v.push(Init::Spec(t));
        }
    }
    v.push(Init::FromAff(r1(&[1.0], 0.0)));
    v.push(Init::FromAff(r1(&[-2.0], 1.0)));
    v.push(Init::FromAff(Aff::new(vec![vec![1.0], vec![-1.0]], vec![0.0, 1.0])));
    v.push(Init::FromAff(Aff::identity(2)));
    v.push(Init::FromAff(Aff::new(vec![vec![1.0, 1.0], vec![1.0, -1.0]], vec![0.0, 0.0])));
    v.push(Init::FromAff(Aff::new(vec![vec![1.0, 0.0], vec![1.0, 0.0]], vec![0.0, -1.0])));
    v.push(Init::FromPoly(vec![(vec![1.0], 1.0), (vec![-1.0], 1.0)], r1(&[1.0], 0.0), None));
    v.push(Init::FromPoly(vec![(vec![1.0], 0.0), (vec![-1.0], -1.0)], r1(&[1.0], 0.0), None));
    v.push(Init::FromPoly(vec![(vec![1.0, 0.0], 0.0), (vec![0.0, 1.0], 0.0)], Aff::identity(2), Some(Aff::new(vec![vec![0.0, 0.0], vec![0.0, 0.0]], vec![1.0, 1.0]))));
    v
}

pub fn cases(tier: Tier) -> Vec<Case> {
    let mut out = vec![];
    let maxlen = match tier { Tier::Quick => 3, Tier::Thorough => 4 };
    for init in inits(tier) {
        let simple = matches!(init, Init::FromAff(_) | Init::FromPoly(..));
        let lim = if simple { maxlen } else { maxlen - 1 };
        fn rec(init: &Init, d: usize, ops: &mut Vec<Op>, lim: usize, tier: Tier, out: &mut Vec<Case>) {
            if !ops.is_empty() && ops.last().unwrap().prunes() {
                out.push(Case { init: init.clone(), ops: ops.clone() });
            }
            if ops.len() == lim {
                return;
            }
            for op in ops_for(d, tier) {
                if !op.fits(d) {
                    continue;
                }
                // two eliminations in a row are C06's business
                if op == Op::Elim && ops.last() == Some(&Op::Elim) {
                    continue;
                }
                let nd = op.out_dim(d);
                if nd > 2 {
                    continue;
                }
                ops.push(op);
                rec(init, nd, ops, lim, tier, out);
                ops.pop();
            }
        }
        rec(&init, init.out_dim(), &mut vec![], lim, tier, &mut out);
    }
    out
}

pub fn run_case(c: &Case) -> CaseOut {
    let mut out = CaseOut::default();
    let rec = || json!({"init": c.init.to_json(), "ops": c.ops.iter().map(|o| o.to_json()).collect::<Vec<_>>()});
    let mut p = c.init.build(); // pruned track
    let mut u = c.init.build(); // unpruned track
    let mut d = c.init.out_dim();
    let last = c.ops.len() - 1;
    let mut before_last = None;
    for (i, op) in c.ops.iter().enumerate() {
        if i == last {
            before_last = Some(snap(&p));
        }
        out.add("real_executions", 1);
        if let Err(msg) = op.run(&mut p, d) {
            if i == last {
                out.violate(Violation::new(format!("{:?} panicked: {msg}", op.to_json().to_string()), rec()).tag("kind", "panic").tag("op", opname(op)));
            }
            return out; // a failing prefix is reported by the shorter case
        }
        if let Some(uop) = op.unpruned() {
            if uop.run(&mut u, d).is_err() {
                return out;
            }
        }
        d = op.out_dim(d);
    }
    let sp = snap(&p);
    let su = snap(&u);
    let mut conf = 0u64;
    let mut conf_err = None;
    let judged = compare_pruned(&su, &sp, &mut out, &mut |face| match conform(&p, &sp, &face.w, true) {
        Ok(true) => conf += 1,
        Ok(false) => {}
        Err(e) => conf_err = Some(e),
    });
    out.add("traces_validated_against_impl", conf);
    if let Some(e) = conf_err {
        out.violate(Violation::new(format!("real evaluator disagrees with documented routing: {e}"), rec()).tag("kind", "conformance"));
    }
    let lastop = c.ops.last().unwrap();
    for m in judged.iter().take(2) {
        let mut r = rec();
        r["mismatch"] = m.to_json();
        r["pruned_arena"] = sp.to_json();
        r["unpruned_arena"] = su.to_json();
        out.violate(
            Violation::new(format!("pruned != unpruned after {}: {}", opname(lastop), mismatch_summary(m)), r)
                .tag("kind", "function").tag("op", opname(lastop)).tag("what", match m.kind { crate::regions::MismatchKind::Defined(a, _) => if a { "became_defined" } else { "became_undefined" }, _ => "value" }),
        );
    }
    if *lastop == Op::Elim {
        let sb = before_last.unwrap();
        for (tag, msg) in structural_elim(&sb, &sp).into_iter().take(2) {
            let mut r = rec();
            r["before_arena"] = sb.to_json();
            r["after_arena"] = sp.to_json();
            out.violate(Violation::new(format!("infeasible_elimination: {msg}"), r).tag("kind", "structure").tag("what", tag));
        }
        out.add("structural_checks", 1);
    }
    if out.sample.is_none() && c.ops.len() >= 2 {
        out.sample = Some(json!({"history": rec(), "nodes_pruned": sp.nodes.len(), "nodes_unpruned": su.nodes.len()}));
    }
    out
}

fn opname(op: &Op) -> &'static str {
    op.name()
}

pub fn run(tier: Tier) -> Report {
    let mut rep = Report::new("C03", tier, "model_checking");
    let cs = cases(tier);
    rep.set("programs", cs.len() as u64);
    let total = par_cases(&cs, |_, c| run_case(c));
    rep.absorb(total);
    rep.set("bound", match tier {
        Tier::Quick => "histories of <= 3 operations (<= 2 from generator trees) over {infeasible_elimination, compose pruned/unpruned with 11-13 right operands, apply_func with 4 maps} ending in a pruning operation, from 1-D/2-D generator trees (<= 7 nodes, parallel/concurrent predicates, partial) and from_aff/from_poly roots",
        Tier::Thorough => "histories of <= 4 operations (<= 3 from generator trees), generator trees with <= 9 nodes",
    });
    rep.assume("a disagreement counts only where the closed region of the unpruned route is fat (some point with slack >= 1e-6 * max(1,|row|_1) in every row)");
    rep
}
