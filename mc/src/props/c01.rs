//! C01 — distillation is faithful: the tree computes exactly the network.
use super::common::*;
use crate::gen::Aff;
use crate::q::Q;
use crate::refnet::{RLayer, RefNet};
use crate::regions::Config;
use crate::report::{catch, par_cases, CaseOut, Report, Tier, Violation};
use crate::snap::{conform, conform_face, snap, TreeSide};
use affinitree::distill::builder::{afftree_from_layers, afftree_from_layers_csv, Layer};
use affinitree::linalg::affine::Polytope;
use affinitree::pwl::afftree::AffTree;
use ndarray::{Array1, Array2};
use serde_json::{json, Value};

#[derive(Clone, Copy, Debug, PartialEq)]
pub enum Act {
    None,
    Relu,
    Leaky(f64),
    HardTanh,
    HardSigmoid,
    /// the same layer listed twice in a row (idempotent for ReLU / hard tanh, not for leaky / hard sigmoid)
    Twice(u8), // 0 relu, 1 leaky(0.5), 2 hard tanh, 3 hard sigmoid
}

#[derive(Clone, Copy, Debug, PartialEq)]
pub enum Head {
    None,
    Argmax,
    ClassChar(usize),
}

#[derive(Clone, Debug, PartialEq)]
pub enum Pre {
    None,
    /// from_poly(P, id, None)
    Poly(Vec<(Vec<f64>, f64)>),
    /// from_poly(P, A, None)
    PolyMap(Vec<(Vec<f64>, f64)>, Aff),
    /// from_aff(A)
    FromAff(Aff),
}

#[derive(Clone, Debug, PartialEq)]
pub struct Block {
    pub w: Vec<Vec<f64>>,
    pub b: Vec<f64>,
    pub acts: Vec<Act>,
    /// activation layers listed in descending neuron order
    pub rev: bool,
}

#[derive(Clone, Debug, PartialEq)]
pub struct Net {
    pub n: usize,
    pub pre: Pre,
    pub blocks: Vec<Block>,
    pub head: Head,
}

impl Net {
    pub fn to_json(&self) -> Value {
        json!({
            "input_dim": self.n,
            "precondition": format!("{:?}", self.pre),
            "blocks": self.blocks.iter().map(|b| json!({"W": b.w, "b": b.b, "activations": b.acts.iter().map(|a| format!("{:?}", a)).collect::<Vec<_>>(), "reverse_order": b.rev})).collect::<Vec<_>>(),
            "head": format!("{:?}", self.head),
        })
    }
    fn first_dim(&self) -> usize {
        match &self.pre {
            Pre::None | Pre::Poly(_) => self.n,
            Pre::PolyMap(_, a) | Pre::FromAff(a) => a.outdim(),
        }
    }
    pub fn layers(&self) -> Vec<Layer> {
        self.layers_layout(false)
    }
    /// `fortran`: weight matrices stored column-major
    pub fn layers_layout(&self, fortran: bool) -> Vec<Layer> {
        let mut v = vec![];
        for b in &self.blocks {
            let indim = b.w.first().map(|r| r.len()).unwrap_or(0);
            let a = Aff::with_indim(b.w.clone(), b.b.clone(), indim);
            v.push(Layer::Linear(if fortran { a.to_real_f() } else { a.to_real() }));
            let idx: Vec<usize> = if b.rev { (0..b.acts.len()).rev().collect() } else { (0..b.acts.len()).collect() };
            for i in idx {
                match b.acts[i] {
                    Act::None => {}
                    Act::Relu => v.push(Layer::ReLU(i)),
                    Act::Leaky(a) => v.push(Layer::LeakyReLU(i, a)),
                    Act::HardTanh => v.push(Layer::HardTanh(i)),
                    Act::HardSigmoid => v.push(Layer::HardSigmoid(i)),
                    Act::Twice(k) => {
                        for _ in 0..2 {
                            v.push(match k { 0 => Layer::ReLU(i), 1 => Layer::LeakyReLU(i, 0.5), 2 => Layer::HardTanh(i), _ => Layer::HardSigmoid(i) });
                        }
                    }
                }
            }
        }
        match self.head {
            Head::None => {}
            Head::Argmax => v.push(Layer::Argmax),
            Head::ClassChar(c) => v.push(Layer::ClassChar(c)),
        }
        v
    }
    pub fn precondition_tree(&self) -> Option<AffTree<2>> {
        self.precondition_tree_layout(false)
    }
    pub fn precondition_tree_layout(&self, fortran: bool) -> Option<AffTree<2>> {
        use ndarray::ShapeBuilder;
        let poly = |rows: &Vec<(Vec<f64>, f64)>| {
            let n = rows[0].0.len();
            let mut m = if fortran { Array2::<f64>::zeros((rows.len(), n).f()) } else { Array2::<f64>::zeros((rows.len(), n)) };
            let mut b = Array1::<f64>::zeros(rows.len());
            for (i, (a, bb)) in rows.iter().enumerate() {
                for j in 0..n {
                    m[[i, j]] = a[j];
                }
                b[i] = *bb;
            }
            Polytope::from_mats(m, b)
        };
        match &self.pre {
            Pre::None => None,
            Pre::Poly(rows) => Some(AffTree::<2>::from_poly(poly(rows), Aff::identity(self.n).to_real(), None).unwrap()),
            Pre::PolyMap(rows, a) => Some(AffTree::<2>::from_poly(poly(rows), a.to_real(), None).unwrap()),
            Pre::FromAff(a) => Some(AffTree::<2>::from_aff(a.to_real())),
        }
    }
    pub fn reference(&self) -> RefNet {
        let mut layers = vec![];
        for b in &self.blocks {
            let indim = b.w.first().map(|r| r.len()).unwrap_or(0);
            layers.push(RLayer::Linear(Aff::with_indim(b.w.clone(), b.b.clone(), indim).to_map()));
            let idx: Vec<usize> = if b.rev { (0..b.acts.len()).rev().collect() } else { (0..b.acts.len()).collect() };
            for i in idx {
                match b.acts[i] {
                    Act::None => {}
                    Act::Relu => layers.push(RLayer::Relu(i)),
                    Act::Leaky(a) => layers.push(RLayer::Leaky(i, Q::from_f64(a))),
                    Act::HardTanh => layers.push(RLayer::HardTanh(i, Q::int(-1), Q::int(1))),
                    Act::HardSigmoid => layers.push(RLayer::HardSigmoid(i)),
                    Act::Twice(k) => {
                        for _ in 0..2 {
                            layers.push(match k { 0 => RLayer::Relu(i), 1 => RLayer::Leaky(i, Q::frac(1, 2)), 2 => RLayer::HardTanh(i, Q::int(-1), Q::int(1)), _ => RLayer::HardSigmoid(i) });
                        }
                    }
                }
            }
        }
        match self.head {
            Head::None => {}
            Head::Argmax => layers.push(RLayer::Argmax),
            Head::ClassChar(c) => layers.push(RLayer::ClassChar(c)),
        }
        let pre = match &self.pre {
            Pre::None => None,
            Pre::Poly(rows) => Some((super::c17::rows_q(rows), crate::regions::AffMap::identity(self.n))),
            Pre::PolyMap(rows, a) => Some((super::c17::rows_q(rows), a.to_map())),
            Pre::FromAff(a) => Some((vec![], a.to_map())),
        };
        RefNet { n: self.n, pre, layers }
    }
    /// exactness class (DESIGN G2): 0 exact, 1 mixed (non-dyadic constants only behind the last
    /// non-linearity), 2 tolerant
    pub fn mode(&self) -> u8 {
        let nb = self.blocks.len();
        let mut class = 0u8;
        for (bi, b) in self.blocks.iter().enumerate() {
            for a in &b.acts {
                if let Act::Twice(3) = a {
                    class = 2; // 1/6 in front of another non-linearity
                    continue;
                }
                let nondyadic = match a {
                    Act::HardSigmoid => true,
                    Act::Leaky(al) => {
                        // dyadic with short mantissa?
                        let q = Q::from_f64(*al);
                        match q {
                            Q::S(_, d) => d > 1024,
                            _ => true,
                        }
                    }
                    _ => false,
                };
                if nondyadic {
                    let later_nonlinear = self.blocks[bi + 1..].iter().any(|b2| b2.acts.iter().any(|x| *x != Act::None)) || self.head != Head::None;
                    // within the same block other neurons are independent of this one
                    let _ = nb;
                    class = class.max(if later_nonlinear { 2 } else { 1 });
                }
            }
        }
        class
    }
}

// ---------------------------------------------------------------------------------------
// deviation-bounded enumeration

#[derive(Clone, Debug)]
enum Slot {
    W(usize, usize, usize),
    B(usize, usize),
    A(usize, usize),
    Rev(usize),
    H,
    P,
}

#[derive(Clone, Debug)]
pub struct Family {
    pub n: usize,
    pub widths: Vec<usize>,
    /// default weights: false = zero, true = "identity-like" (ones on the diagonal / first column)
    pub ident: bool,
    pub values: Vec<f64>,
    pub acts: Vec<Act>,
    pub heads: bool,
    pub pres: Vec<Pre>,
    pub budget: usize,
}

impl Family {
    fn default_net(&self) -> Net {
        let mut blocks = vec![];
        let mut prev = self.n;
        for &h in &self.widths {
            let mut w = vec![vec![0.0; prev]; h];
            if self.ident {
                for i in 0..h {
                    w[i][i.min(prev - 1)] = 1.0;
                }
            }
            blocks.push(Block { w, b: vec![0.0; h], acts: vec![Act::None; h], rev: false });
            prev = h;
        }
        Net { n: self.n, pre: Pre::None, blocks, head: Head::None }
    }

    pub fn enumerate(&self) -> Vec<Net> {
        let base = self.default_net();
        let mut slots: Vec<(Slot, usize)> = vec![]; // slot, number of alternatives
        let mut prev = self.n;
        for (bi, &h) in self.widths.iter().enumerate() {
            for i in 0..h {
                for j in 0..prev {
                    slots.push((Slot::W(bi, i, j), self.values.len()));
                }
                slots.push((Slot::B(bi, i), self.values.len()));
                slots.push((Slot::A(bi, i), self.acts.len()));
            }
            if h >= 2 {
                slots.push((Slot::Rev(bi), 1));
            }
            prev = h;
        }
        let last = *self.widths.last().unwrap();
        let heads: Vec<Head> = if self.heads && last >= 2 {
            let mut v = vec![Head::Argmax];
            for c in 0..last {
                v.push(Head::ClassChar(c));
            }
            v
        } else {
            vec![]
        };
        if !heads.is_empty() {
            slots.push((Slot::H, heads.len()));
        }
        if !self.pres.is_empty() {
            slots.push((Slot::P, self.pres.len()));
        }
        let mut out = vec![];
        // simplest first: by number of deviations
        fn rec(fam: &Family, heads: &[Head], slots: &[(Slot, usize)], start: usize, left: usize, cur: &mut Net, out: &mut Vec<Net>) {
            out.push(cur.clone());
            if left == 0 {
                return;
            }
            for si in start..slots.len() {
                let (slot, nalt) = &slots[si];
                for alt in 0..*nalt {
                    let saved = cur.clone();
                    let mut ok = true;
                    match slot {
                        Slot::W(b, i, j) => {
                            let v = fam.values[alt];
                            if cur.blocks[*b].w[*i][*j] == v {
                                ok = false;
                            }
                            cur.blocks[*b].w[*i][*j] = v;
                        }
                        Slot::B(b, i) => cur.blocks[*b].b[*i] = fam.values[alt],
                        Slot::A(b, i) => cur.blocks[*b].acts[*i] = fam.acts[alt],
                        Slot::Rev(b) => cur.blocks[*b].rev = true,
                        Slot::H => cur.head = heads[alt],
                        Slot::P => cur.pre = fam.pres[alt].clone(),
                    }
                    if ok {
                        rec(fam, heads, slots, si + 1, left - 1, cur, out);
                    }
                    *cur = saved;
                }
            }
        }
        let mut cur = base;
        rec(self, &heads, &slots, 0, self.budget, &mut cur, &mut out);
        // a precondition that changes the dimension must match the first layer
        out.retain(|n| n.blocks[0].w[0].len() == n.first_dim());
        // reverse order without two activations is the same program
        out.retain(|n| n.blocks.iter().all(|b| !b.rev || b.acts.iter().filter(|a| **a != Act::None).count() >= 2));
        out.sort_by_key(|n| deviations(n, self));
        out
    }
}

fn deviations(n: &Net, fam: &Family) -> usize {
    let base = fam.default_net();
    let mut d = 0;
    for (b, b0) in n.blocks.iter().zip(base.blocks.iter()) {
        for (r, r0) in b.w.iter().zip(b0.w.iter()) {
            d += r.iter().zip(r0.iter()).filter(|(x, y)| x != y).count();
        }
        d += b.b.iter().filter(|x| **x != 0.0).count();
        d += b.acts.iter().filter(|a| **a != Act::None).count();
        d += b.rev as usize;
    }
    d += (n.head != Head::None) as usize;
    d += (n.pre != Pre::None) as usize;
    d
}

fn pres(n: usize) -> Vec<Pre> {
    if n == 1 {
        vec![
            Pre::Poly(vec![(vec![1.0], 1.0), (vec![-1.0], 1.0)]),  // [-1,1]
            Pre::Poly(vec![(vec![1.0], 0.0)]),                      // half line
            Pre::Poly(vec![(vec![1.0], 0.0), (vec![-1.0], 0.0)]),   // the point 0
            Pre::Poly(vec![(vec![1.0], 0.0), (vec![-1.0], -1.0)]),  // empty
            Pre::Poly(vec![(vec![-1.0], -0.5), (vec![2.0], 3.0), (vec![1.0], 2.0)]), // [0.5,1.5] with a redundant row
            Pre::FromAff(Aff::row1(&[2.0], -1.0)),
            Pre::PolyMap(vec![(vec![1.0], 1.0), (vec![-1.0], 1.0)], Aff::row1(&[-1.0], 0.5)),
            // rows without coefficients behind an ordinary one: 0 <= -1 makes the set empty, 0 <= 1 says nothing
            Pre::Poly(vec![(vec![1.0], 1.0), (vec![0.0], -1.0)]),
            Pre::Poly(vec![(vec![1.0], 1.0), (vec![0.0], 1.0), (vec![-1.0], 1.0)]),
            // two parallel rows one unit in the last place apart, the looser one first
            Pre::Poly(vec![(vec![1.0], 1.0 + f64::EPSILON), (vec![1.0], 1.0), (vec![-1.0], 1.0)]),
        ]
    } else {
        vec![
            Pre::Poly(vec![(vec![1.0, 0.0], 1.0), (vec![-1.0, 0.0], 1.0), (vec![0.0, 1.0], 1.0), (vec![0.0, -1.0], 1.0)]),
            Pre::Poly(vec![(vec![1.0, 0.0], 0.0)]),
            Pre::Poly(vec![(vec![-1.0, 0.0], 0.0), (vec![0.0, -1.0], 0.0), (vec![1.0, 1.0], 1.0)]),
            Pre::Poly(vec![(vec![1.0, -1.0], 0.0), (vec![-1.0, 1.0], 0.0), (vec![1.0, 0.0], 1.0)]), // segment on the diagonal
            Pre::Poly(vec![(vec![1.0, 0.0], 0.0), (vec![-1.0, 0.0], -1.0)]),                        // empty
            Pre::FromAff(Aff::new(vec![vec![1.0, 1.0], vec![1.0, -1.0]], vec![0.0, 0.5])),
            Pre::PolyMap(vec![(vec![1.0, 1.0], 1.0), (vec![-1.0, 0.0], 1.0)], Aff::new(vec![vec![0.0, 1.0], vec![1.0, 0.0]], vec![0.0, 0.0])),
            Pre::Poly(vec![(vec![1.0, 0.0], 1.0), (vec![0.0, 0.0], -1.0), (vec![0.0, 1.0], 1.0)]),
        ]
    }
}

pub fn families(tier: Tier) -> Vec<Family> {
    let acts_all = vec![Act::Relu, Act::Leaky(0.5), Act::Leaky(-1.0), Act::Leaky(2.0), Act::HardTanh, Act::HardSigmoid];
    let acts_twice = vec![Act::Twice(0), Act::Twice(1), Act::Twice(2), Act::Twice(3), Act::Relu];
    let mut v = vec![];
    match tier {
        Tier::Quick => {
            for ident in [false, true] {
                v.push(Family { n: 1, widths: vec![1], ident, values: vec![1.0, -1.0, 2.0, 0.5], acts: acts_all.clone(), heads: true, pres: pres(1), budget: 5 });
                v.push(Family { n: 1, widths: vec![2], ident, values: vec![1.0, -1.0, 2.0], acts: acts_all.clone(), heads: true, pres: pres(1), budget: 4 });
                v.push(Family { n: 2, widths: vec![2], ident, values: vec![1.0, -1.0], acts: acts_all.clone(), heads: true, pres: pres(2), budget: 4 });
                v.push(Family { n: 1, widths: vec![2, 1], ident, values: vec![1.0, -1.0], acts: acts_all.clone(), heads: false, pres: pres(1), budget: 4 });
                v.push(Family { n: 2, widths: vec![2, 2], ident, values: vec![1.0, -1.0], acts: vec![Act::Relu, Act::HardTanh, Act::Leaky(0.5)], heads: true, pres: vec![], budget: 3 });
            }
            v.push(Family { n: 2, widths: vec![2, 2], ident: true, values: vec![-1.0, 2.0], acts: vec![Act::Relu, Act::HardTanh], heads: true, pres: pres(2), budget: 4 });
            v.push(Family { n: 1, widths: vec![1, 1], ident: true, values: vec![1.0, -1.0, 2.0, 0.5], acts: acts_twice.clone(), heads: false, pres: vec![], budget: 4 });
            v.push(Family { n: 2, widths: vec![2], ident: true, values: vec![1.0, -1.0], acts: acts_twice.clone(), heads: true, pres: vec![], budget: 4 });
            // equal widths in consecutive blocks and several slopes: two leaky layers on the same row and width with
            // different slopes within one network
            v.push(Family { n: 1, widths: vec![1, 1], ident: true, values: vec![1.0, -1.0], acts: acts_all.clone(), heads: false, pres: vec![], budget: 3 });
            v.push(Family { n: 2, widths: vec![2, 2], ident: true, values: vec![-1.0], acts: vec![Act::Leaky(0.5), Act::Leaky(2.0)], heads: false, pres: vec![], budget: 2 });
        }
        Tier::Thorough => {
            for ident in [false, true] {
                v.push(Family { n: 1, widths: vec![1], ident, values: vec![1.0, -1.0, 2.0, -2.0, 0.5], acts: acts_all.clone(), heads: true, pres: pres(1), budget: 6 });
                v.push(Family { n: 1, widths: vec![2], ident, values: vec![1.0, -1.0, 2.0, 0.5], acts: acts_all.clone(), heads: true, pres: pres(1), budget: 5 });
                v.push(Family { n: 2, widths: vec![2], ident, values: vec![1.0, -1.0, 2.0, 0.5], acts: acts_all.clone(), heads: true, pres: pres(2), budget: 5 });
                v.push(Family { n: 1, widths: vec![2, 1], ident, values: vec![1.0, -1.0, 2.0], acts: acts_all.clone(), heads: false, pres: pres(1), budget: 5 });
                v.push(Family { n: 1, widths: vec![3], ident, values: vec![1.0, -1.0], acts: acts_all.clone(), heads: true, pres: pres(1), budget: 5 });
                v.push(Family { n: 2, widths: vec![2, 2], ident, values: vec![1.0, -1.0], acts: acts_all.clone(), heads: true, pres: pres(2), budget: 4 });
                v.push(Family { n: 2, widths: vec![2, 1], ident, values: vec![1.0, -1.0, 2.0], acts: acts_all.clone(), heads: false, pres: pres(2), budget: 5 });
                v.push(Family { n: 2, widths: vec![3], ident, values: vec![1.0, -1.0], acts: vec![Act::Relu, Act::HardTanh], heads: true, pres: vec![], budget: 5 });
            }
            v.push(Family { n: 2, widths: vec![2, 2], ident: true, values: vec![-1.0, 2.0, 0.5], acts: vec![Act::Relu, Act::HardTanh, Act::Leaky(0.5)], heads: true, pres: pres(2), budget: 5 });
            v.push(Family { n: 3, widths: vec![2], ident: true, values: vec![1.0, -1.0], acts: vec![Act::Relu, Act::HardTanh], heads: true, pres: vec![], budget: 4 });
            v.push(Family { n: 1, widths: vec![1, 1], ident: true, values: vec![1.0, -1.0, 2.0, 0.5], acts: acts_twice.clone(), heads: false, pres: pres(1), budget: 5 });
            v.push(Family { n: 2, widths: vec![2, 2], ident: true, values: vec![1.0, -1.0], acts: acts_twice.clone(), heads: true, pres: vec![], budget: 4 });
            // equal widths in consecutive blocks and several slopes: two leaky layers on the same row and width with
            // different slopes within one network
            v.push(Family { n: 1, widths: vec![1, 1], ident: true, values: vec![1.0, -1.0], acts: acts_all.clone(), heads: false, pres: vec![], budget: 4 });
            v.push(Family { n: 2, widths: vec![2, 2], ident: true, values: vec![-1.0], acts: vec![Act::Leaky(0.5), Act::Leaky(2.0), Act::Leaky(-1.0)], heads: false, pres: vec![], budget: 3 });
        }
    }
    v
}

pub fn check_net(net: &Net) -> CaseOut {
    let mut out = CaseOut::default();
    let rec = net.to_json();
    // deterministic per-network choices: storage order of the weight matrices; the csv-logging entry point as twin
    let h = rec.to_string().bytes().fold(0xcbf29ce484222325u64, |h, b| (h ^ b as u64).wrapping_mul(0x100000001b3));
    let fortran = h % 2 == 1;
    let layers = net.layers_layout(fortran);
    let pre = net.precondition_tree_layout(fortran);
    out.add("real_executions", 1);
    out.add("networks_with_column_major_weights", fortran as u64);
    let tree = match catch(|| afftree_from_layers(net.n, &layers, pre)) {
        Ok(t) => t,
        Err(msg) => {
            out.violate(Violation::new(format!("afftree_from_layers panicked: {msg}"), rec).tag("kind", "panic"));
            return out;
        }
    };
    let s = snap(&tree);
    if (h >> 8) % 8 == 0 {
        let dir = "/verif/.work/c01";
        let _ = std::fs::create_dir_all(dir);
        let path = format!("{dir}/distill_{}.csv", rayon::current_thread_index().unwrap_or(0));
        let pre2 = net.precondition_tree_layout(fortran);
        out.add("real_executions", 1);
        out.add("csv_twin_runs", 1);
        match catch(|| afftree_from_layers_csv(net.n, &layers, &path, pre2)) {
            Err(msg) => out.violate(Violation::new(format!("afftree_from_layers_csv panicked where afftree_from_layers did not: {msg}"), rec.clone()).tag("kind", "variant")),
            Ok(t2) => {
                if snap(&t2) != s {
                    out.violate(Violation::new("afftree_from_layers_csv and afftree_from_layers build different trees", json!({"network": rec.clone(), "arena": s.to_json(), "arena_csv": snap(&t2).to_json()})).tag("kind", "variant"));
                }
            }
        }
    }
    let mode = net.mode();
    let rf = net.reference();
    let mut cfg = Config::default();
    match mode {
        0 => {}
        1 => cfg.coef_tol = Some(Q::from_f64(1e-12)),
        _ => {
            cfg.coef_tol = Some(Q::from_f64(1e-9));
            cfg.only_fulldim = true;
            cfg.min_slack = Some(Q::from_f64(1e-7));
        }
    }
    out.add(match mode { 0 => "programs_exact_mode", 1 => "programs_mixed_mode", _ => "programs_tolerant_mode" }, 1);
    if let Err((tag, msg)) = well_formed(&s, None) {
        out.violate(
            Violation::new(format!("distilled tree is not well-formed: {msg}"), json!({"network": rec.clone(), "arena": s.to_json()}))
                .tag("kind", "malformed").tag("inv", tag).tag("pre", pre_kind(net)),
        );
    }
    let imp = TreeSide(&s);
    let mut conf = 0u64;
    let mut conf_err = None;
    let o = refine(net.n, &imp, &rf, &cfg, &mut out, &mut |face, _, _| {
        if mode == 0 || face.n_eq() == 0 {
            let (n, e) = if mode == 0 { conform_face(&tree, &s, face, true) } else { (conform(&tree, &s, &face.w, false).map(|b| b as u64).unwrap_or(0), None) };
            conf += n;
            if let Some(e) = e {
                conf_err = Some(e)
            }
        }
    });
    out.add("traces_validated_against_impl", conf);
    if let Some(e) = conf_err {
        out.violate(Violation::new(format!("real evaluator disagrees with documented routing: {e}"), json!({"network": rec.clone()})).tag("kind", "conformance"));
    }
    for m in &o.mismatches {
        let r = json!({"network": rec.clone(), "mismatch": m.to_json(), "arena": s.to_json(), "mode": mode});
        let what = match &m.kind {
            crate::regions::MismatchKind::Defined(true, false) => "defined_outside_precondition",
            crate::regions::MismatchKind::Defined(_, _) => "undefined_inside_precondition",
            crate::regions::MismatchKind::Value { .. } => "value",
            crate::regions::MismatchKind::OutDim(..) => "outdim",
            crate::regions::MismatchKind::ImplError(_) | crate::regions::MismatchKind::RefError(_) => "routing_error",
        };
        out.violate(
            Violation::new(format!("tree != network: {}", mismatch_summary(m)), r)
                .tag("kind", "function").tag("what", what).tag("pre", pre_kind(net)),
        );
    }
    if out.sample.is_none() && !net.blocks.is_empty() {
        out.sample = Some(json!({"network": rec, "faces": o.stats.faces, "tree_nodes": s.nodes.len(), "mode": mode}));
    }
    out
}

fn pre_kind(net: &Net) -> &'static str {
    match &net.pre {
        Pre::None => "none",
        Pre::FromAff(_) => "from_aff",
        Pre::Poly(rows) | Pre::PolyMap(rows, _) => {
            // classify the polytope exactly
            let rq = super::c17::rows_q(rows);
            match crate::lp::thickness(rows[0].0.len(), &rq, &Q::from_f64(1e-6)) {
                crate::lp::Thickness::Fat => "fat_polytope",
                crate::lp::Thickness::Thin => "thin_polytope",
                crate::lp::Thickness::RobustEmpty => "empty_polytope",
            }
        }
    }
}

pub fn run(tier: Tier) -> Report {
    let mut rep = Report::new("C01", tier, "model_checking");
    let fams = families(tier);
    let mut nets: Vec<Net> = vec![];
    let mut fam_descr = vec![];
    for f in &fams {
        let v = f.enumerate();
        fam_descr.push(json!({"n": f.n, "widths": f.widths, "identity_defaults": f.ident, "values": f.values, "activations": f.acts.iter().map(|a| format!("{:?}", a)).collect::<Vec<_>>(), "heads": f.heads, "preconditions": f.pres.len(), "max_deviations": f.budget, "networks": v.len()}));
        nets.extend(v);
    }
    // wide layers (64-72 neurons, most of them linear): the builder's node estimate saturates for these widths
    for (n, w, active) in [(2usize, 64usize, vec![0usize, 1, 63]), (2, 72, vec![5, 70]), (1, 66, vec![0, 33, 65])] {
        let w1: Vec<Vec<f64>> = (0..w).map(|i| (0..n).map(|j| [1.0, -1.0, 0.5, 2.0, 0.0][(i + 2 * j) % 5]).collect()).collect();
        let b1: Vec<f64> = (0..w).map(|i| [0.0, 1.0, -0.5][i % 3]).collect();
        let acts: Vec<Act> = (0..w).map(|i| if active.contains(&i) { Act::Relu } else { Act::None }).collect();
        let w2: Vec<Vec<f64>> = vec![(0..w).map(|i| if active.contains(&i) || i % 16 == 3 { 1.0 } else { 0.0 }).collect()];
        nets.push(Net { n, pre: Pre::None, blocks: vec![Block { w: w1, b: b1, acts, rev: false }, Block { w: w2, b: vec![0.5], acts: vec![Act::None], rev: false }], head: Head::None });
    }
    rep.set("programs", nets.len() as u64);
    rep.set("families", Value::Array(fam_descr));
    let total = par_cases(&nets, |_, n| check_net(n));
    rep.absorb(total);
    rep.set("bound", "every network of each family with at most max_deviations departures from the family's default network (zero or identity-like weights, no activation, no head, no precondition); deviations: one weight/bias value, one activation kind, reversed activation order, head, precondition");
    rep.assume("exact mode for dyadic networks (equality on every face incl. breakpoints, ties, precondition boundary); mixed mode (exact guards, coefficients to 1e-12) when 1/6 sits behind the last non-linearity; tolerant mode (full-dimensional faces with slack >= 1e-7, coefficients to 1e-9) otherwise");
    rep
}
