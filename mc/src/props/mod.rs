use crate::report::Tier;

pub mod c02;
pub mod common;

pub fn dispatch(id: &str, tier: Tier) -> i32 {
    match id {
        "C02" => c02::run(tier).finish(),
        _ => {
            eprintln!("unknown property {id}");
            2
        }
    }
}
