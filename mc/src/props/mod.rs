use crate::report::Tier;

pub mod c01;
pub mod c02;
pub mod c03;
pub mod c04;
pub mod c06;
pub mod c07;
pub mod c08;
pub mod c09;
pub mod c10;
pub mod c11;
pub mod c14;
pub mod c15;
pub mod c16;
pub mod c12;
pub mod c13;
pub mod c17;
pub mod c18;
pub mod c19;
pub mod common;
pub mod selftest;

pub fn dispatch(id: &str, tier: Tier) -> i32 {
    match id {
        "C01" => c01::run(tier).finish(),
        "C02" => c02::run(tier).finish(),
        "C03" => c03::run(tier).finish(),
        "C04" => c04::run(tier).finish(),
        "C05" => c04::run_c05(tier).finish(),
        "C06" => c06::run(tier).finish(),
        "C07" => c07::run(tier).finish(),
        "C08" => c08::run(tier).finish(),
        "C09" => c09::run(tier).finish(),
        "C10" => c10::run(tier).finish(),
        "C11" => c11::run(tier).finish(),
        "C14" => c14::run(tier).finish(),
        "C15" => c15::run(tier).finish(),
        "C16" => c16::run(tier).finish(),
        "C12" => c12::run(tier).finish(),
        "C13" => c13::run(tier).finish(),
        "C17" => c17::run(tier).finish(),
        "C18" => c18::run(tier).finish(),
        "C19" => c19::run(tier).finish(),
        "selftest" => selftest::run(),
        _ => {
            eprintln!("unknown property {id}");
            2
        }
    }
}
