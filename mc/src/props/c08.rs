//! C08 — reduce preserves the function and only merges identical siblings.
use super::common::*;
use crate::gen::{Aff, TSpec, TreeGen};
use crate::regions::Config;
use crate::report::{catch, par_cases, CaseOut, Report, Tier, Violation};
use crate::snap::{conform_face, snap, Snap, TreeSide};
use affinitree::pwl::afftree::AffTree;
use serde_json::json;

#[derive(Clone, Debug)]
pub struct Case {
    pub t: TSpec,
    pub layout: u8,
    /// run infeasible_elimination before reduce (terminals then carry different cached witnesses)
    pub elim_first: bool,
}

fn r1(a: &[f64], b: f64) -> Aff {
    Aff::row1(a, b)
}

fn tower(levels: usize, t: &Aff, odd: Option<&Aff>) -> TSpec {
    // complete binary tree of equal leaves (cascading merges); optionally one leaf differs
    fn rec(l: usize, t: &Aff, odd: Option<&Aff>, first: &mut bool, preds: &[Aff]) -> TSpec {
        if l == 0 {
            if let (Some(o), true) = (odd, *first) {
                *first = false;
                return TSpec::Leaf(o.clone());
            }
            return TSpec::Leaf(t.clone());
        }
        let p = preds[l % preds.len()].clone();
        let c0 = rec(l - 1, t, odd, first, preds);
        let c1 = rec(l - 1, t, odd, first, preds);
        TSpec::Dec(p, vec![Some(c0), Some(c1)])
    }
    let preds = vec![r1(&[1.0, 0.0], 0.0), r1(&[0.0, 1.0], 0.0), r1(&[1.0, 1.0], 1.0)];
    let mut first = true;
    rec(levels, t, odd, &mut first, &preds)
}

pub fn cases(tier: Tier) -> Vec<Case> {
    let t = r1(&[1.0, 2.0], 0.0);
    let t1 = r1(&[1.0, 2.0], 1.0); // differs only in bias
    let t2 = r1(&[1.0, -2.0], 0.0); // differs only in one coefficient
    let mk = |max_depth: usize, max_nodes: usize| TreeGen {
        k: 2,
        preds: vec![r1(&[1.0, 0.0], 0.0), r1(&[1.0, -1.0], 0.0)],
        terms: vec![t.clone(), t1.clone(), t2.clone()],
        max_depth,
        max_nodes,
        partial: true,
    };
    let mut out = vec![];
    // every tree with <= 7 nodes (depth <= 4)
    for (i, s) in mk(4, 7).all().into_iter().enumerate() {
        out.push(Case { t: s.clone(), layout: (i % 5) as u8, elim_first: false });
        // partial trees also after infeasible_elimination (kept only-children then carry the cached state Infeasible)
        if !s.is_total() || i % 3 == 0 {
            out.push(Case { t: s, layout: ((i + 2) % 5) as u8, elim_first: true });
        }
    }
    // larger trees: depth <= 3, 8-9 (thorough: 8-10) nodes, every keep-th
    let (big, keep) = if tier == Tier::Quick { (9, 37) } else { (10, 11) };
    for (i, s) in mk(3, big).all().into_iter().enumerate() {
        if s.n_nodes() >= 8 && i % keep == 0 {
            out.push(Case { t: s, layout: (i % 5) as u8, elim_first: i % 3 == 0 });
        }
    }
    // terminals that coincide with a predicate (a terminal next to a decision holding the same matrix and bias)
    let gp = TreeGen {
        k: 2,
        preds: vec![r1(&[1.0, 0.0], 0.0), r1(&[1.0, -1.0], 0.0)],
        terms: vec![t.clone(), r1(&[1.0, 0.0], 0.0), r1(&[1.0, -1.0], 0.0)],
        max_depth: 3,
        max_nodes: if tier == Tier::Quick { 6 } else { 7 },
        partial: true,
    };
    for (i, s) in gp.all().into_iter().enumerate() {
        out.push(Case { t: s, layout: (i % 5) as u8, elim_first: i % 3 == 0 });
    }
    // terminals with 2x2 matrices (storage layout matters for them), differing in one entry
    let m2 = |a: f64| Aff::new(vec![vec![1.0, a], vec![0.0, 1.0]], vec![0.5, -1.0]);
    let g22 = TreeGen {
        k: 2,
        preds: vec![r1(&[1.0, 0.0], 0.0), r1(&[0.0, 1.0], 1.0)],
        terms: vec![m2(2.0), m2(-2.0), Aff::new(vec![vec![1.0, 2.0], vec![0.0, 1.0]], vec![0.5, 1.0])],
        max_depth: 3,
        max_nodes: if tier == Tier::Quick { 5 } else { 7 },
        partial: true,
    };
    for (i, s) in g22.all().into_iter().enumerate() {
        out.push(Case { t: s, layout: (i % 5) as u8, elim_first: i % 3 == 0 });
    }
    // terminals that are nearly, but not exactly, equal: a bias of 2^-60 against 0, a coefficient of 2^-60 against 0,
    // and two biases one unit in the last place apart (all chosen so that f64 evaluation stays exact)
    let tiny = (2.0f64).powi(-60);
    let gn = TreeGen {
        k: 2,
        preds: vec![r1(&[1.0, 0.0], 0.0), r1(&[0.0, 1.0], 1.0)],
        terms: vec![r1(&[0.0, 0.0], 0.0), r1(&[0.0, 0.0], tiny), r1(&[tiny, 0.0], 0.0), r1(&[0.0, 0.0], 1.0), r1(&[0.0, 0.0], 1.0 + f64::EPSILON)],
        max_depth: 2,
        max_nodes: 5,
        partial: true,
    };
    for (i, s) in gn.all().into_iter().enumerate() {
        out.push(Case { t: s, layout: (i % 5) as u8, elim_first: i % 3 == 0 });
    }
    // sibling terminals with different numbers of output rows, one a row-wise prefix of the other (such trees can
    // be built through the public node API; the decisions between them must be kept)
    let gm = TreeGen {
        k: 2,
        preds: vec![r1(&[1.0, 0.0], 0.0), r1(&[0.0, 1.0], 1.0)],
        terms: vec![r1(&[1.0, 2.0], 0.0), Aff::new(vec![vec![1.0, 2.0], vec![0.0, 1.0]], vec![0.0, 1.0]), Aff::with_indim(vec![], vec![], 2)],
        max_depth: 2,
        max_nodes: 5,
        partial: true,
    };
    for (i, s) in gm.all().into_iter().enumerate() {
        out.push(Case { t: s, layout: (i % 5) as u8, elim_first: false });
    }
    // one input, parallel predicates with a gap (x <= 0 against x >= 1): robustly infeasible paths, so that
    // infeasible_elimination leaves kept only-children with the cached state Infeasible above equal siblings
    let g1 = TreeGen {
        k: 2,
        preds: vec![Aff::row1(&[1.0], 0.0), Aff::row1(&[-1.0], -1.0), Aff::row1(&[1.0], -5.0)],
        terms: vec![Aff::row1(&[2.0], 3.0), Aff::row1(&[1.0], 0.0)],
        max_depth: 3,
        max_nodes: 6,
        partial: true,
    };
    for (i, s) in g1.all().into_iter().enumerate() {
        out.push(Case { t: s.clone(), layout: (i % 5) as u8, elim_first: true });
        if i % 2 == 0 {
            out.push(Case { t: s, layout: ((i + 1) % 5) as u8, elim_first: false });
        }
    }
    // trees over R^0 (what remove_axes leaves when every axis is sliced away): predicates 0 <= b, constant terminals
    let z = |b: f64| Aff::with_indim(vec![vec![]], vec![b], 0);
    let g0 = TreeGen { k: 2, preds: vec![z(-1.0), z(0.0), z(1.0)], terms: vec![z(1.0), z(2.0)], max_depth: 2, max_nodes: 5, partial: true };
    for (i, s) in g0.all().into_iter().enumerate() {
        out.push(Case { t: s, layout: (i % 5) as u8, elim_first: false });
    }
    // terminals that are equal as numbers but differ in the sign of a zero
    let gz = TreeGen {
        k: 2,
        preds: vec![r1(&[1.0, 0.0], 0.0), r1(&[0.0, 1.0], 1.0)],
        terms: vec![r1(&[0.0, 1.0], 0.0), r1(&[-0.0, 1.0], 0.0), r1(&[0.0, 1.0], -0.0), r1(&[0.0, 1.0], 1.0)],
        max_depth: 2,
        max_nodes: 5,
        partial: true,
    };
    for (i, s) in gz.all().into_iter().enumerate() {
        out.push(Case { t: s, layout: (i % 5) as u8, elim_first: i % 3 == 0 });
    }
    for levels in 1..=4 {
        for odd in [None, Some(&t1), Some(&t2)] {
            for layout in 0..5u8 {
                out.push(Case { t: tower(levels, &t, odd), layout, elim_first: false });
                out.push(Case { t: tower(levels, &t, odd), layout, elim_first: true });
            }
        }
    }
    // arenas whose root was replaced with add_root (layout >= 100): every case with <= 5 nodes once more, with the
    // root away from node 0 and a former tree left behind unreachable
    let extra: Vec<Case> = out.iter().enumerate().filter(|(_, c)| c.t.n_nodes() <= 5).map(|(i, c)| Case { t: c.t.clone(), layout: 100 + (i % 2) as u8, elim_first: c.elim_first }).collect();
    out.extend(extra);
    out
}

fn build(c: &Case) -> AffTree<2> {
    let mut t = if c.layout >= 100 { c.t.build_rerooted::<2>(c.layout) } else { c.t.build_layout::<2>(c.layout) };
    if c.elim_first {
        t.infeasible_elimination();
    }
    t
}

/// all terminals below `i` equal and the subtree total?
fn uniform_total(s: &Snap, i: usize) -> Option<(Vec<Vec<crate::q::Q>>, Vec<crate::q::Q>)> {
    let n = &s.nodes[&i];
    if n.isleaf {
        return Some((n.mat.clone(), n.bias.clone()));
    }
    let mut val = None;
    for c in &n.children {
        let c = (*c)?;
        let v = uniform_total(s, c)?;
        match &val {
            None => val = Some(v),
            Some(x) => {
                if *x != v {
                    return None;
                }
            }
        }
    }
    val
}

pub fn run_case(c: &Case) -> CaseOut {
    let mut out = CaseOut::default();
    let tree = build(c);
    let sb = snap(&tree);
    let rec = || json!({"tree": c.t.to_json(), "layout": c.layout, "infeasible_elimination_first": c.elim_first, "arena_before": sb.to_json()});
    let mut r = tree.clone();
    out.add("real_executions", 1);
    if let Err(m) = catch(|| r.reduce()) {
        out.violate(Violation::new(format!("reduce panicked: {m}"), rec()).tag("kind", "panic"));
        return out;
    }
    let sa = snap(&r);
    let mut viol = |out: &mut CaseOut, tag: &str, msg: String| {
        let mut rj = rec();
        rj["arena_after"] = sa.to_json();
        out.violate(Violation::new(msg, rj).tag("kind", tag));
    };
    if sa.nodes.len() > sb.nodes.len() {
        viol(&mut out, "grew", format!("reduce increased the number of nodes {} -> {}", sb.nodes.len(), sa.nodes.len()));
    }
    // reduce must not break a well-formed tree (trees of the mixed-output family are not well-formed to begin with)
    if well_formed(&sb, None).is_ok() {
        if let Err((tag, msg)) = well_formed(&sa, None) {
            viol(&mut out, "malformed", format!("{tag}: {msg}"));
            return out;
        }
    }
    // function preserved, exactly, everywhere
    let imp = TreeSide(&sa);
    let rf = TreeSide(&sb);
    let mut conf = 0u64;
    let mut conf_errs: Vec<String> = vec![];
    if sb.in_dim == 0 {
        // a single-point domain: compare the two routes and the real evaluator at the empty input
        let mut g = vec![];
        let idm = crate::regions::AffMap { m: vec![], c: vec![] };
        let before = sb.route(&idm, 0, &[], &mut g).map(|o| o.map(|(_, m)| m.c));
        let after = sa.route(&idm, 0, &[], &mut g).map(|o| o.map(|(_, m)| m.c));
        out.add("states", 1);
        out.add("transitions", 1);
        if before != after {
            viol(&mut out, "function", format!("reduce changed the value at the only input of a tree over R^0: {:?} -> {:?}", before, after));
        }
        let real = catch(|| r.evaluate(&ndarray::Array1::<f64>::zeros(0)).map(|v| v.to_vec()));
        let exp = after.clone().ok().flatten().map(|v| v.iter().map(|q| q.to_f64()).collect::<Vec<f64>>());
        match real {
            Ok(v) if v == exp => out.add("traces_validated_against_impl", 1),
            other => viol(&mut out, "conformance", format!("real evaluate at the empty input gives {:?}, snapshot routing {:?}", other, exp)),
        }
    } else {
        let o = refine(sb.in_dim, &imp, &rf, &Config::default(), &mut out, &mut |face, _, _| {
            let (n, e) = conform_face(&r, &sa, face, true);
            conf += n;
            if let Some(e) = e {
                conf_errs.push(e);
            }
        });
        out.add("traces_validated_against_impl", conf);
        if let Some(e) = conf_errs.first() {
            viol(&mut out, "conformance", format!("real evaluator disagrees with documented routing: {e}"));
        }
        if let Some(m) = o.mismatches.first() {
            viol(&mut out, "function", format!("reduce changed the function: {}", mismatch_summary(m)));
        }
    }
    // no decision below the root with two equal terminal children
    for (i, n) in &sa.nodes {
        if *i == sa.root || n.isleaf {
            continue;
        }
        if let (Some(a), Some(b)) = (n.children[0], n.children[1]) {
            let (na, nb) = (&sa.nodes[&a], &sa.nodes[&b]);
            if na.isleaf && nb.isleaf && na.mat == nb.mat && na.bias == nb.bias {
                viol(&mut out, "equal_siblings_left", format!("decision {i} still has two identical terminal children"));
                break;
            }
        }
    }
    // only merges of identical siblings: a vanished decision had a total subtree of equal terminals
    for (i, n) in &sb.nodes {
        if !n.isleaf && !sa.nodes.contains_key(i) && uniform_total(&sb, *i).is_none() {
            viol(&mut out, "merged_different", format!("decision {i} disappeared although its terminals differ or a branch is missing"));
            break;
        }
    }
    // surviving nodes keep index and content
    for (i, n) in &sa.nodes {
        match sb.nodes.get(i) {
            Some(b) if b.mat == n.mat && b.bias == n.bias => {}
            _ => {
                viol(&mut out, "node_changed", format!("node {i} is new or changed its function"));
                break;
            }
        }
    }
    // idempotent
    let mut r2 = r.clone();
    out.add("real_executions", 1);
    match catch(|| r2.reduce()) {
        Err(m) => viol(&mut out, "panic", format!("second reduce panicked: {m}")),
        Ok(()) => {
            if snap(&r2) != sa {
                viol(&mut out, "idempotence", "a second reduce changed the tree".into());
            }
        }
    }
    if out.sample.is_none() && sa.nodes.len() < sb.nodes.len() {
        out.sample = Some(json!({"tree": c.t.to_json(), "nodes_before": sb.nodes.len(), "nodes_after": sa.nodes.len()}));
    }
    out.add("trees_reduced_nontrivially", (sa.nodes.len() < sb.nodes.len()) as u64);
    out
}

pub fn run(tier: Tier) -> Report {
    let mut rep = Report::new("C08", tier, "model_checking");
    let cs = cases(tier);
    rep.set("programs", cs.len() as u64);
    let total = par_cases(&cs, |_, c| run_case(c));
    rep.absorb(total);
    rep.set("bound", match tier {
        Tier::Quick => "all binary trees with <= 7 nodes and depth <= 4, every 37th tree with 8-9 nodes and depth <= 3, total and partial, over 2 predicates and 3 terminal maps {t, t+bias, t with one coefficient changed}; all trees with <= 6 nodes whose terminals may equal a predicate; towers of equal leaves with 1-4 levels (optionally one odd leaf); five storage layouts (depth-first, breadth-first, re-used indices, column-major, interleaved siblings)",
        Tier::Thorough => "same with every 11th tree with 8-10 nodes, predicate-equal terminals up to 7 nodes",
    });
    rep.assume("exact comparison (reduce is syntactic): before == after on every face of the predicates' arrangement");
    rep
}
