//! helpers shared by the property modules
use crate::q::Q;
use crate::regions::{explore, AffMap, Config, Face, Mismatch, Outcome, Side};
use crate::report::CaseOut;

/// Region refinement over all of R^n; counts go to `out`.
pub fn refine(
    n: usize,
    imp: &dyn Side,
    rf: &dyn Side,
    cfg: &Config,
    out: &mut CaseOut,
    leaf: &mut dyn FnMut(&Face, &Option<AffMap>, &Option<AffMap>),
) -> Outcome {
    let o = explore(Face::whole(n), imp, rf, cfg, leaf);
    out.add("states", o.stats.faces);
    out.add("transitions", o.stats.splits * 3);
    out.add("lowdim_faces", o.stats.lowdim_faces);
    out.add("side_evaluations", o.stats.evals);
    if o.stats.skipped_tolerant > 0 {
        out.add("tolerant_skipped_faces", o.stats.skipped_tolerant);
    }
    if !o.complete && o.mismatches.is_empty() {
        out.add("face_cap_hit", 1);
    }
    o
}

pub fn mismatch_summary(m: &Mismatch) -> String {
    format!(
        "{:?} at x={:?}: impl {:?} vs reference {:?}",
        m.kind,
        crate::q::fmt_vec(&m.point),
        m.impl_map.as_ref().map(|a| crate::q::fmt_vec(&a.apply(&m.point))),
        m.ref_map.as_ref().map(|a| crate::q::fmt_vec(&a.apply(&m.point)))
    )
}

pub fn qv(v: &[f64]) -> Vec<Q> {
    v.iter().map(|x| Q::from_f64(*x)).collect()
}

use crate::snap::Snap;

/// Well-formedness of an AffTree snapshot (property C04's invariant).
/// Returns (tag, message) of the first failure.
pub fn well_formed(s: &Snap, expect_out: Option<usize>) -> Result<(), (String, String)> {
    if let Some(m) = s.nonfinite.first() {
        return Err(("nonfinite".into(), m.clone()));
    }
    let max_rows = (usize::BITS - (s.k - 1).leading_zeros()) as usize; // ceil(log2 K)
    let mut out_dim: Option<usize> = expect_out;
    for (i, n) in &s.nodes {
        if n.ncols != s.in_dim {
            return Err(("in_dim".into(), format!("node {i} has {} columns, tree in_dim {}", n.ncols, s.in_dim)));
        }
        let nch = n.n_children();
        if n.isleaf != (nch == 0) {
            return Err(("isleaf".into(), format!("node {i}: isleaf={} with {} children", n.isleaf, nch)));
        }
        if n.isleaf {
            match out_dim {
                None => out_dim = Some(n.mat.len()),
                Some(d) => {
                    if d != n.mat.len() {
                        return Err(("terminal_out_dim".into(), format!("terminal {i} has {} output rows, expected {d}", n.mat.len())));
                    }
                }
            }
        } else if n.mat.is_empty() || n.mat.len() > max_rows {
            return Err(("decision_rows".into(), format!("decision {i} has {} rows (K={})", n.mat.len(), s.k)));
        }
        for c in n.children.iter().flatten() {
            match s.nodes.get(c) {
                None => return Err(("dangling".into(), format!("node {i} -> missing child {c}"))),
                Some(cn) => {
                    if cn.parent != Some(*i) {
                        return Err(("links".into(), format!("child {c} of {i} has parent {:?}", cn.parent)));
                    }
                }
            }
        }
    }
    match s.nodes.get(&s.root) {
        Some(r) if r.parent.is_none() => Ok(()),
        _ => Err(("root".into(), "root missing or has a parent".into())),
    }
}

use crate::lp::{thickness, Thickness};
use crate::snap::TreeSide;

static DELTA_BITS: std::sync::atomic::AtomicU64 = std::sync::atomic::AtomicU64::new(0);

/// Margin of the fat / thin / robustly-empty classification. 1e-6 by default; the checks of the pruning properties
/// (C03, C06, C07, C11) set 1e-7 at start-up (the unchanged library holds with that margin in both tiers).
pub fn set_delta(d: f64) {
    DELTA_BITS.store(d.to_bits(), std::sync::atomic::Ordering::SeqCst);
}

pub fn delta() -> Q {
    // VERIF_DELTA is an experiment knob (never set by the registered commands)
    if let Some(d) = std::env::var("VERIF_DELTA").ok().and_then(|v| v.parse::<f64>().ok()) {
        return Q::from_f64(d);
    }
    let b = DELTA_BITS.load(std::sync::atomic::Ordering::SeqCst);
    if b == 0 { Q::from_f64(1e-6) } else { Q::from_f64(f64::from_bits(b)) }
}

/// Function comparison `after` vs `before` with the thin-region carve-out (DESIGN G1):
/// a disagreement counts only if the closed region through which `before` routes the
/// witness is fat.  Returns the judged mismatches.
pub fn compare_pruned(before: &Snap, after: &Snap, out: &mut CaseOut, leaf: &mut dyn FnMut(&Face)) -> Vec<Mismatch> {
    compare_pruned_all(before, after, out, leaf).0
}

/// (mismatches on fat regions, mismatches on regions thinner than the LP tolerance)
pub fn compare_pruned_all(before: &Snap, after: &Snap, out: &mut CaseOut, leaf: &mut dyn FnMut(&Face)) -> (Vec<Mismatch>, Vec<Mismatch>) {
    let n = before.in_dim;
    let imp = TreeSide(after);
    let rf = TreeSide(before);
    let mut cfg = Config::default();
    cfg.max_mismatches = 64;
    let o = refine(n, &imp, &rf, &cfg, out, &mut |f, _, _| leaf(f));
    let mut judged = vec![];
    let mut thin = vec![];
    for m in o.mismatches {
        let rows = match before.route_rows(&m.point) {
            Ok(r) => r,
            Err(_) => {
                judged.push(m);
                continue;
            }
        };
        match thickness(n, &rows, &delta()) {
            Thickness::Fat => judged.push(m),
            _ => {
                out.add("tolerated_thin_faces", 1);
                thin.push(m);
            }
        }
    }
    (judged, thin)
}

/// Structural clause of C03 for operations with stable indices (infeasible_elimination):
/// removed nodes lie on non-fat paths; a node whose parent changed was forwarded over decisions
/// all of whose other existing branches are non-fat.
pub fn structural_elim(before: &Snap, after: &Snap) -> Vec<(String, String)> {
    let mut errs = vec![];
    let n = before.in_dim;
    let fat = |idx: usize| -> bool {
        match before.path_rows(idx) {
            Ok(rows) => thickness(n, &rows, &delta()) == Thickness::Fat,
            Err(_) => false,
        }
    };
    let mut skipped: std::collections::BTreeSet<usize> = Default::default();
    for (i, an) in &after.nodes {
        let bn = match before.nodes.get(i) {
            None => {
                errs.push(("new_node".into(), format!("node {i} appeared")));
                continue;
            }
            Some(b) => b,
        };
        if an.mat != bn.mat || an.bias != bn.bias {
            errs.push(("node_changed".into(), format!("node {i} changed its function")));
        }
        if !bn.isleaf && an.isleaf {
            errs.push(("decision_became_leaf".into(), format!("decision {i} became a leaf")));
        }
        if an.parent != bn.parent {
            // forwarded: after-parent must be an ancestor in before
            let chain = match before.path_to(*i) {
                Ok(c) => c,
                Err(e) => {
                    errs.push(("before_corrupt".into(), e));
                    continue;
                }
            };
            let ap = match an.parent {
                None => {
                    errs.push(("became_root".into(), format!("node {i} lost its parent")));
                    continue;
                }
                Some(p) => p,
            };
            let pos = match chain.iter().position(|(p, _)| *p == ap) {
                None => {
                    errs.push(("moved".into(), format!("node {i} moved below non-ancestor {ap}")));
                    continue;
                }
                Some(p) => p,
            };
            // label must be preserved at the ancestor
            let lab_before = chain[pos].1;
            let lab_after = after.nodes[&ap].children.iter().position(|c| *c == Some(*i));
            if lab_after != Some(lab_before) {
                errs.push(("label_changed".into(), format!("node {i} hangs at label {:?} of {ap}, was reached via label {lab_before}", lab_after)));
            }
            for w in pos + 1..chain.len() {
                let (dec, taken) = chain[w];
                skipped.insert(dec);
                for (l, c) in before.nodes[&dec].children.iter().enumerate() {
                    if let Some(c) = c {
                        if l != taken && fat(*c) {
                            errs.push(("skipped_over_fat_sibling".into(), format!("decision {dec} was skipped although its branch {l} (node {c}) is reachable by a margin")));
                        }
                    }
                }
            }
        }
    }
    for i in before.nodes.keys() {
        if !after.nodes.contains_key(i) && !skipped.contains(i) {
            // removed: must not be fat, unless an ancestor is removed too (then the topmost removed one is judged)
            let parent_removed = before.nodes[i].parent.map(|p| !after.nodes.contains_key(&p) && !skipped.contains(&p)).unwrap_or(false);
            if !parent_removed && fat(*i) {
                errs.push(("removed_fat_node".into(), format!("node {i} was removed although its path region is non-empty by a margin")));
            }
        }
    }
    for i in &skipped {
        if after.nodes.contains_key(i) {
            errs.push(("skipped_still_present".into(), format!("decision {i}")));
        }
    }
    errs
}
