//! helpers shared by the property modules
use crate::q::Q;
use crate::regions::{explore, AffMap, Config, Face, Mismatch, Outcome, Side};
use crate::report::CaseOut;

/// Region refinement over all of R^n; counts go to `out`.
pub fn refine(
    n: usize,
    imp: &dyn Side,
    rf: &dyn Side,
    cfg: &Config,
    out: &mut CaseOut,
    leaf: &mut dyn FnMut(&Face, &Option<AffMap>, &Option<AffMap>),
) -> Outcome {
    let o = explore(Face::whole(n), imp, rf, cfg, leaf);
    out.add("states", o.stats.faces);
    out.add("transitions", o.stats.splits * 3);
    out.add("lowdim_faces", o.stats.lowdim_faces);
    out.add("side_evaluations", o.stats.evals);
    if o.stats.skipped_tolerant > 0 {
        out.add("tolerant_skipped_faces", o.stats.skipped_tolerant);
    }
    if !o.complete && o.mismatches.is_empty() {
        out.add("face_cap_hit", 1);
    }
    o
}

pub fn mismatch_summary(m: &Mismatch) -> String {
    format!(
        "{:?} at x={:?}: impl {:?} vs reference {:?}",
        m.kind,
        crate::q::fmt_vec(&m.point),
        m.impl_map.as_ref().map(|a| crate::q::fmt_vec(&a.apply(&m.point))),
        m.ref_map.as_ref().map(|a| crate::q::fmt_vec(&a.apply(&m.point)))
    )
}

pub fn qv(v: &[f64]) -> Vec<Q> {
    v.iter().map(|x| Q::from_f64(*x)).collect()
}
