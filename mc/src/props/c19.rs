//! C19 — text and DOT renderings are faithful to the objects they show.
//! A small parser reads the rendered text back and compares it with the stored values.
use crate::gen::{Aff, TSpec, TreeGen};
use crate::report::{catch, par_cases, CaseOut, Report, Tier, Violation};
use affinitree::linalg::affine::{AffFunc, Polytope};
use affinitree::linalg::impl_affineformat::FormatOptions;
use affinitree::pwl::afftree::AffTree;
use affinitree::pwl::dot::Dot;
use ndarray::{Array1, Array2};
use serde_json::json;
use std::collections::BTreeSet;
use std::ops::Bound;

const MINUS: &str = "−";
const LEQ: &str = "≤";
const ELL: &str = "⋯";
const VELL: &str = "⋮";
const TOP: &str = "⊤";
const BOT: &str = "⊥";

#[derive(Clone, Debug)]
pub struct Opt {
    pub sort: usize,
    pub simplify_zero: bool,
    pub simplify_taut: bool,
    pub normalize: bool,
    pub skip_axes: (Bound<i32>, Bound<i32>),
    pub skip_rows: (Bound<i32>, Bound<i32>),
    pub precision: Option<usize>,
}

impl Opt {
    fn real(&self) -> FormatOptions {
        FormatOptions {
            sort_coefficients: self.sort,
            simplify_zero: self.simplify_zero,
            simplify_tautologies: self.simplify_taut,
            normalize: self.normalize,
            skip_axes_n: 0,
            skip_axes: self.skip_axes,
            skip_rows_n: 0,
            skip_rows: self.skip_rows,
        }
    }
    fn from(o: &FormatOptions, precision: Option<usize>) -> Opt {
        Opt { sort: o.sort_coefficients, simplify_zero: o.simplify_zero, simplify_taut: o.simplify_tautologies, normalize: o.normalize, skip_axes: o.skip_axes, skip_rows: o.skip_rows, precision }
    }
    fn json(&self) -> serde_json::Value {
        json!({"sort_coefficients": self.sort, "simplify_zero": self.simplify_zero, "simplify_tautologies": self.simplify_taut, "normalize": self.normalize, "skip_axes": format!("{:?}", self.skip_axes), "skip_rows": format!("{:?}", self.skip_rows), "precision": self.precision})
    }
}

fn in_range(r: &(Bound<i32>, Bound<i32>), x: i32) -> bool {
    (match r.0 { Bound::Included(a) => x >= a, Bound::Excluded(a) => x > a, Bound::Unbounded => true }) && (match r.1 { Bound::Included(b) => x <= b, Bound::Excluded(b) => x < b, Bound::Unbounded => true })
}

fn fmt_float(v: f64, prec: usize) -> String {
    format!("{}{:.*}", if v.is_sign_negative() { MINUS } else { "+" }, prec, v.abs())
}

/// parsed linear combination: (shown terms (text, idx), has ellipsis)
fn parse_lincomb(tokens: &[&str]) -> Result<(Vec<(String, usize)>, bool), String> {
    let mut terms = vec![];
    let mut ell = false;
    let mut i = 0;
    while i < tokens.len() {
        if tokens[i] == ELL {
            if ell {
                return Err("two ellipses in one row".into());
            }
            ell = true;
            i += 1;
            continue;
        }
        if i + 1 >= tokens.len() {
            return Err(format!("dangling token {:?}", tokens[i]));
        }
        let num = tokens[i];
        let var = tokens[i + 1];
        if !(num.starts_with('+') || num.starts_with(MINUS)) {
            return Err(format!("term without sign glyph: {:?}", num));
        }
        let idx = var.strip_prefix('$').and_then(|s| s.parse::<usize>().ok()).ok_or_else(|| format!("expected $idx, got {:?}", var))?;
        terms.push((num.to_string(), idx));
        i += 2;
    }
    Ok((terms, ell))
}

/// check one rendered row against the stored row. `ineq`: inequality (polytope) or affine combination (function)
fn check_row(text: &str, coef: &[f64], bias: f64, o: &Opt, ineq: bool) -> Result<(), (String, String)> {
    let prec = o.precision.unwrap_or(2);
    let n = coef.len();
    let all_zero = coef.iter().all(|x| *x == 0.0);
    let toks: Vec<&str> = text.split(' ').filter(|t| !t.is_empty()).collect();
    let e = |k: &str, m: String| Err((k.to_string(), m));
    let (lin_toks, scale): (Vec<&str>, f64);
    if ineq {
        if toks.len() == 1 && (toks[0] == TOP || toks[0] == BOT) {
            if !o.simplify_taut {
                return e("tautology_glyph", "tautology glyph although simplify_tautologies is off".into());
            }
            if !all_zero {
                return e("tautology_glyph", format!("{} shown for a row with non-zero coefficients", toks[0]));
            }
            if (toks[0] == TOP) != (bias >= 0.0) {
                return e("tautology_value", format!("{} shown for 0 <= {}", toks[0], bias));
            }
            return Ok(());
        }
        let pos = toks.iter().position(|t| *t == LEQ).ok_or(("inequality_sign".to_string(), format!("no {} in {:?}", LEQ, text)))?;
        if pos + 2 != toks.len() {
            return e("inequality_sign", format!("expected exactly one number after {}", LEQ));
        }
        scale = if o.normalize && !all_zero { coef.iter().fold(0f64, |a, b| a.max(b.abs())) } else { 1.0 };
        let sb = if scale == 1.0 && !(o.normalize && !all_zero) { bias } else { bias / scale };
        if toks[pos + 1] != fmt_float(sb, prec) {
            return e("bias", format!("bias shown as {:?}, stored {} (scale {})", toks[pos + 1], bias, scale));
        }
        lin_toks = toks[..pos].to_vec();
    } else {
        if toks.is_empty() {
            return e("bias", "empty row".into());
        }
        if toks[0] != fmt_float(bias, prec) {
            return e("bias", format!("bias shown as {:?}, stored {}", toks[0], bias));
        }
        scale = 1.0;
        lin_toks = toks[1..].to_vec();
        if lin_toks.is_empty() {
            // nothing shown: only allowed when simplify_zero and every coefficient is exactly zero
            if o.simplify_zero && all_zero {
                return Ok(());
            }
            return e("silently_dropped", "no coefficient shown and no ellipsis".into());
        }
    }
    let (terms, ell) = parse_lincomb(&lin_toks).map_err(|m| ("syntax".to_string(), m))?;
    let mut seen = BTreeSet::new();
    for (num, idx) in &terms {
        if *idx >= n {
            return e("index", format!("variable ${idx} does not exist"));
        }
        if !seen.insert(*idx) {
            return e("index", format!("variable ${idx} shown twice"));
        }
        let v = if o.normalize && ineq && !all_zero { coef[*idx] / scale } else { coef[*idx] };
        if *num != fmt_float(v, prec) {
            return e("coefficient", format!("${idx} shown with {:?}, stored {} (scale {})", num, coef[*idx], scale));
        }
    }
    if terms.len() < n && !ell {
        return e("silently_dropped", format!("{} of {} coefficients shown without an ellipsis", terms.len(), n));
    }
    if ell && terms.len() == n {
        return e("spurious_ellipsis", "ellipsis although every coefficient is shown".into());
    }
    // documented ordering: descending |coefficient| when sorting applies, index order otherwise
    let sorted = o.sort != 0 && o.sort <= n;
    for w in terms.windows(2) {
        if sorted {
            if coef[w[0].1].abs() < coef[w[1].1].abs() {
                return e("order", "coefficients not in descending order of magnitude".into());
            }
        } else if w[0].1 > w[1].1 {
            return e("order", "coefficients not in index order".into());
        }
    }
    Ok(())
}

/// check a rendered multi-row object
fn check_rows(text: &str, mat: &[Vec<f64>], bias: &[f64], o: &Opt, ineq: bool) -> Result<(), (String, String)> {
    let lines: Vec<&str> = text.split('\n').collect();
    let mut expected_rows: Vec<usize> = vec![];
    let mut any_skipped = false;
    for i in 0..mat.len() {
        if in_range(&o.skip_rows, i as i32) {
            any_skipped = true;
        } else {
            expected_rows.push(i);
        }
    }
    let mut shown: Vec<&str> = vec![];
    let mut vell = 0;
    for l in &lines {
        if l.trim() == VELL {
            vell += 1;
        } else if !(l.is_empty() && shown.len() == expected_rows.len()) {
            shown.push(l);
        }
    }
    if vell > 1 {
        return Err(("row_ellipsis".into(), "more than one vertical ellipsis".into()));
    }
    if shown.len() < mat.len() && vell == 0 {
        return Err(("rows_silently_dropped".into(), format!("{} of {} rows shown without an ellipsis", shown.len(), mat.len())));
    }
    if vell == 1 && !any_skipped {
        return Err(("row_ellipsis".into(), "vertical ellipsis although no row is skipped".into()));
    }
    if shown.len() != expected_rows.len() {
        return Err(("row_count".into(), format!("{} rows shown, {} expected ({:?})", shown.len(), expected_rows.len(), text)));
    }
    for (l, i) in shown.iter().zip(expected_rows.iter()) {
        check_row(l, &mat[*i], bias[*i], o, ineq).map_err(|(k, m)| (k, format!("row {i}: {m}")))?;
    }
    Ok(())
}

fn render<T: std::fmt::Display>(x: &T, prec: Option<usize>) -> String {
    match prec {
        None => format!("{}", x),
        Some(p) => format!("{:.*}", p, x),
    }
}

#[derive(Clone, Debug)]
pub enum Case {
    Matrix { mat: Vec<Vec<f64>>, bias: Vec<f64> },
    Tree { t: TSpec, layout: u8 },
    /// branching factor 4 (two-row predicates): Display only (Dot is defined for binary trees)
    Tree4 { t: TSpec },
}

fn options_for(n: usize, rows: usize) -> Vec<Opt> {
    let none = (Bound::Included(1), Bound::Excluded(0));
    let axes0 = [none, (Bound::Included(1), Bound::Excluded(3)), (Bound::Included(1), Bound::Unbounded), (Bound::Included(0), Bound::Unbounded)];
    // axis windows with an exclusive start as well
    let axes = [axes0[0], axes0[1], axes0[2], axes0[3], (Bound::Excluded(0), Bound::Unbounded), (Bound::Excluded(1), Bound::Included(2))];
    // (row windows may start below zero: rows 0.. are hidden all the same and the ellipsis stands for them)
    let rws: Vec<(Bound<i32>, Bound<i32>)> = if rows > 1 {
        let mut r = axes0.to_vec();
        r.push((Bound::Included(-1), Bound::Excluded(2)));
        r.push((Bound::Excluded(-2), Bound::Unbounded));
        r
    } else {
        vec![none]
    };
    let mut v = vec![];
    let mut sorts = vec![0, 1, n, n + 1];
    sorts.dedup();
    for sort in sorts {
        for sz in [false, true] {
            for st in [false, true] {
                for nm in [false, true] {
                    for ax in axes {
                        for rw in &rws {
                            for p in [None, Some(0), Some(4)] {
                                v.push(Opt { sort, simplify_zero: sz, simplify_taut: st, normalize: nm, skip_axes: ax, skip_rows: *rw, precision: p });
                            }
                        }
                    }
                }
            }
        }
    }
    v.push(Opt::from(&FormatOptions::default_func(), None));
    v.push(Opt::from(&FormatOptions::default_poly(), None));
    v.push(Opt::from(&FormatOptions::default(), None));
    v.push(Opt::from(&FormatOptions::default_poly().show_all_rows().show_all_axes(), Some(3)));
    v
}

fn check_matrix(mat: &[Vec<f64>], bias: &[f64]) -> CaseOut {
    let mut out = CaseOut::default();
    let rows = mat.len();
    let n = mat[0].len();
    // storage chosen by the entries: standard, column-major, or mirrored with inverted axes (negative strides)
    let h = mat.iter().flatten().chain(bias.iter()).enumerate().map(|(k, v)| (k as i64 + 1) * ((v.abs() * 8.0) as i64 % 7)).sum::<i64>().rem_euclid(3);
    let mut a = {
        use ndarray::ShapeBuilder;
        if h == 1 && rows >= 2 && n >= 2 { Array2::<f64>::zeros((rows, n).f()) } else { Array2::<f64>::zeros((rows, n)) }
    };
    let mirrored = h == 2 && rows * n >= 2;
    for i in 0..rows {
        for j in 0..n {
            if mirrored {
                a[[rows - 1 - i, n - 1 - j]] = mat[i][j];
                continue;
            }
            a[[i, j]] = mat[i][j];
        }
    }
    if mirrored {
        a.invert_axis(ndarray::Axis(0));
        a.invert_axis(ndarray::Axis(1));
    }
    // constructed through the public fields: from_mats refuses subnormal values in debug builds only
    let f = AffFunc::from_mats(a.clone(), Array1::from(bias.to_vec()));
    let p = Polytope::from_mats(a, Array1::from(bias.to_vec()));
    out.add("objects", 1);
    out.add("objects_nontrivial", mat.iter().flatten().any(|x| *x != 0.0) as u64);
    for o in options_for(n, rows) {
        for ineq in [false, true] {
            out.add("evaluations", 1);
            let text = catch(|| if ineq { render(&p.display_with(o.real()), o.precision) } else { render(&f.display_with(o.real()), o.precision) });
            let rec = |t: &str| json!({"mat": mat, "bias": bias, "kind": if ineq { "polytope" } else { "function" }, "options": o.json(), "rendered": t});
            match text {
                Err(m) => out.violate(Violation::new(format!("rendering panicked: {m}"), rec("")).tag("kind", "panic")),
                Ok(t) => {
                    if let Err((k, m)) = check_rows(&t, mat, bias, &o, ineq) {
                        out.violate(Violation::new(format!("{} rendering not faithful: {m}", if ineq { "polytope" } else { "function" }), rec(&t)).tag("kind", "text").tag("what", k).tag("object", if ineq { "polytope" } else { "function" }));
                    }
                }
            }
        }
    }
    // plain Display uses the default option sets
    for ineq in [false, true] {
        out.add("evaluations", 1);
        let o = if ineq { Opt::from(&FormatOptions::default_poly(), None) } else { Opt::from(&FormatOptions::default_func(), None) };
        if let Ok(t) = catch(|| if ineq { format!("{}", p) } else { format!("{}", f) }) {
            if let Err((k, m)) = check_rows(&t, mat, bias, &o, ineq) {
                out.violate(Violation::new(format!("Display not faithful: {m}"), json!({"mat": mat, "bias": bias, "rendered": t})).tag("kind", "text").tag("what", k).tag("object", "display"));
            }
        }
    }
    out
}

type NodeRow = (usize, bool, Vec<Vec<f64>>, Vec<f64>, Vec<Option<usize>>, Option<usize>);

fn node_rows<const K: usize>(tree: &AffTree<K>) -> Vec<NodeRow> {
    tree.tree
        .node_iter()
        .map(|(i, n)| (i, n.isleaf, n.value.aff.mat.outer_iter().map(|r| r.to_vec()).collect(), n.value.aff.bias.to_vec(), n.children.to_vec(), n.parent))
        .collect()
}

fn check_tree4(t: &TSpec) -> CaseOut {
    let mut out = CaseOut::default();
    let tree: AffTree<4> = t.build();
    out.add("objects", 1);
    out.add("objects_nontrivial", 1);
    out.add("evaluations", 1);
    let nodes = node_rows(&tree);
    match catch(|| format!("{}", tree)) {
        Err(m) => out.violate(Violation::new(format!("Display panicked: {m}"), json!({"tree": t.to_json()})).tag("kind", "panic")),
        Ok(txt) => {
            if let Err((k, m)) = check_display(&txt, &nodes) {
                out.violate(Violation::new(format!("Display output (K=4) not faithful: {m}"), json!({"tree": t.to_json(), "K": 4, "rendered": txt})).tag("kind", "display").tag("what", k).tag("K", "4"));
            }
        }
    }
    out
}

fn check_display(txt: &str, nodes: &[NodeRow]) -> Result<(), (String, String)> {
    let func_o = Opt::from(&FormatOptions::default_func(), None);
    let poly_o = Opt::from(&FormatOptions::default_poly(), None);
    let mut lines = txt.split('\n').peekable();
    let hdr = lines.next().unwrap_or("");
    if hdr != format!("Decision Tree with {} nodes", nodes.len()) {
        return Err(("display_header".into(), hdr.to_string()));
    }
    let mut seen = vec![];
    let mut edges: Vec<(usize, usize, usize)> = vec![];
    while let Some(l) = lines.next() {
        if l.is_empty() {
            continue;
        }
        let l = l.strip_prefix('[').ok_or(("display_syntax".to_string(), format!("line {:?}", l)))?;
        let bar = l.find('|').ok_or(("display_syntax".to_string(), "no |".to_string()))?;
        let idx: usize = l[..bar].trim().parse().map_err(|_| ("display_syntax".to_string(), "index".to_string()))?;
        let kind = &l[bar + 1..bar + 2];
        let mut body = l[bar + 4..].to_string();
        // continuation lines of multi-row functions / predicates
        while let Some(nx) = lines.peek() {
            if nx.starts_with('[') || nx.starts_with("children: ") || nx.is_empty() {
                break;
            }
            body.push('\n');
            body.push_str(lines.next().unwrap());
        }
        let nd = nodes.iter().find(|x| x.0 == idx).ok_or(("display_nodes".to_string(), format!("unknown node {idx}")))?;
        if (kind == "T") != nd.1 {
            return Err(("display_kind".into(), format!("node {idx} shown as {kind}")));
        }
        let (o, ineq) = if nd.1 { (&func_o, false) } else { (&poly_o, true) };
        check_rows(&body, &nd.2, &nd.3, o, ineq).map_err(|(k, m)| (format!("display_label_{k}"), format!("node {idx}: {m}")))?;
        seen.push(idx);
        if let Some(nx) = lines.peek() {
            if let Some(ch) = nx.strip_prefix("children: ") {
                for part in ch.split(", ") {
                    let mut it = part.split("->");
                    let lab: usize = it.next().unwrap_or("").trim().parse().map_err(|_| ("display_syntax".to_string(), format!("children {:?}", ch)))?;
                    let dst: usize = it.next().unwrap_or("").trim().parse().map_err(|_| ("display_syntax".to_string(), format!("children {:?}", ch)))?;
                    edges.push((idx, lab, dst));
                }
                lines.next();
            }
        }
    }
    let exp_ids: Vec<usize> = nodes.iter().map(|x| x.0).collect();
    if seen != exp_ids {
        return Err(("display_nodes".into(), format!("statements for {:?}, arena {:?}", seen, exp_ids)));
    }
    let mut exp_edges: Vec<(usize, usize, usize)> = vec![];
    for nd in nodes {
        for (l, c) in nd.4.iter().enumerate() {
            if let Some(c) = c {
                exp_edges.push((nd.0, l, *c));
            }
        }
    }
    edges.sort();
    exp_edges.sort();
    if edges != exp_edges {
        return Err(("display_edges".into(), format!("{:?} vs {:?}", edges, exp_edges)));
    }
    Ok(())
}

fn check_tree(t: &TSpec, layout: u8) -> CaseOut {
    let mut out = CaseOut::default();
    let tree: AffTree<2> = t.build_layout(layout);
    out.add("objects", 1);
    out.add("objects_nontrivial", 1);
    let nodes: Vec<NodeRow> = node_rows(&tree);
    let rec = |txt: &str| json!({"tree": t.to_json(), "layout": layout, "rendered": txt});
    let func_o = Opt::from(&FormatOptions::default_func(), None);
    let poly_o = Opt::from(&FormatOptions::default_poly(), None);
    // ---- DOT
    out.add("evaluations", 1);
    match catch(|| format!("{}", Dot::from(&tree))) {
        Err(m) => out.violate(Violation::new(format!("Dot panicked: {m}"), rec("")).tag("kind", "panic")),
        Ok(txt) => {
            let r = (|| -> Result<(), (String, String)> {
                // node statements: n<idx> [label="...", attr];   labels may span lines
                let mut node_stmts: Vec<(usize, String)> = vec![];
                let mut edge_stmts: Vec<(usize, usize, usize)> = vec![];
                let mut rest = txt.as_str();
                let hdr_end = rest.find("margin=0;\n").ok_or(("dot_syntax".to_string(), "header".to_string()))? + "margin=0;\n".len();
                rest = &rest[hdr_end..];
                while !rest.starts_with('}') {
                    if !rest.starts_with('n') {
                        return Err(("dot_syntax".into(), format!("unexpected text {:?}", &rest[..rest.len().min(30)])));
                    }
                    let sp = rest.find(' ').ok_or(("dot_syntax".to_string(), "no space".to_string()))?;
                    let idx: usize = rest[1..sp].parse().map_err(|_| ("dot_syntax".to_string(), "node id".to_string()))?;
                    let after = &rest[sp + 1..];
                    if let Some(lab) = after.strip_prefix("[label=\"") {
                        let end = lab.find("\", ").ok_or(("dot_syntax".to_string(), "label end".to_string()))?;
                        node_stmts.push((idx, lab[..end].to_string()));
                        let stmt_end = lab[end..].find("];\n").ok_or(("dot_syntax".to_string(), "stmt end".to_string()))?;
                        rest = &lab[end + stmt_end + 3..];
                    } else if let Some(e) = after.strip_prefix("-> n") {
                        let sp2 = e.find(' ').ok_or(("dot_syntax".to_string(), "edge".to_string()))?;
                        let dst: usize = e[..sp2].parse().map_err(|_| ("dot_syntax".to_string(), "edge target".to_string()))?;
                        let l = e[sp2..].strip_prefix(" [label=").ok_or(("dot_syntax".to_string(), "edge label".to_string()))?;
                        let c = l.find(',').ok_or(("dot_syntax".to_string(), "edge label end".to_string()))?;
                        let label: usize = l[..c].parse().map_err(|_| ("dot_syntax".to_string(), "edge label value".to_string()))?;
                        edge_stmts.push((idx, label, dst));
                        let stmt_end = l.find("];\n").ok_or(("dot_syntax".to_string(), "edge end".to_string()))?;
                        rest = &l[stmt_end + 3..];
                    } else {
                        return Err(("dot_syntax".into(), "statement".into()));
                    }
                }
                let ids: Vec<usize> = node_stmts.iter().map(|x| x.0).collect();
                let exp_ids: Vec<usize> = nodes.iter().map(|x| x.0).collect();
                let mut sorted = ids.clone();
                sorted.sort();
                if sorted != exp_ids {
                    return Err(("dot_nodes".into(), format!("node statements {:?}, arena nodes {:?}", ids, exp_ids)));
                }
                for (idx, lab) in &node_stmts {
                    let nd = nodes.iter().find(|x| x.0 == *idx).unwrap();
                    let (o, ineq) = if nd.1 { (&func_o, false) } else { (&poly_o, true) };
                    check_rows(lab, &nd.2, &nd.3, o, ineq).map_err(|(k, m)| (format!("dot_label_{k}"), format!("node {idx}: {m}")))?;
                }
                let mut exp_edges: Vec<(usize, usize, usize)> = vec![];
                for nd in &nodes {
                    for (l, c) in nd.4.iter().enumerate() {
                        if let Some(c) = c {
                            exp_edges.push((nd.0, l, *c));
                        }
                    }
                }
                let mut got = edge_stmts.clone();
                got.sort();
                exp_edges.sort();
                if got != exp_edges {
                    return Err(("dot_edges".into(), format!("edge statements {:?}, tree edges {:?}", got, exp_edges)));
                }
                Ok(())
            })();
            if let Err((k, m)) = r {
                out.violate(Violation::new(format!("DOT output not faithful: {m}"), rec(&txt)).tag("kind", "dot").tag("what", k));
            }
        }
    }
    // ---- Display
    out.add("evaluations", 1);
    match catch(|| format!("{}", tree)) {
        Err(m) => out.violate(Violation::new(format!("Display panicked: {m}"), rec("")).tag("kind", "panic")),
        Ok(txt) => {
            let r = check_display(&txt, &nodes);
            if let Err((k, m)) = r {
                out.violate(Violation::new(format!("Display output not faithful: {m}"), rec(&txt)).tag("kind", "display").tag("what", k));
            }
        }
    }
    out
}

pub fn cases(tier: Tier) -> Vec<Case> {
    let vals = [0.0, -0.0, 1.0, -1.0, 0.004, -0.004, 0.005, -0.005, 2.5, -2.5, 12345.678, -12345.678, 1e-9];
    let mut v = vec![];
    // every vector of length 1..3 (thorough: 4 with a reduced alphabet), bias rotating through the alphabet
    let mut k = 0usize;
    for n in 1..=3usize {
        let mut idx = vec![0usize; n];
        loop {
            let row: Vec<f64> = idx.iter().map(|i| vals[*i]).collect();
            k += 1;
            if n < 3 || tier == Tier::Thorough || k % 1 == 0 {
                v.push(Case::Matrix { mat: vec![row], bias: vec![vals[k % vals.len()]] });
            }
            let mut j = 0;
            loop { if j == n { break; } idx[j] += 1; if idx[j] < vals.len() { break; } idx[j] = 0; j += 1; }
            if j == n { break; }
        }
    }
    // every vector of length 4 over a reduced alphabet
    let small = [0.0, -0.0, 1.0, -0.004, 2.5, -12345.678];
    let mut idx = vec![0usize; 4];
    let mut k4 = 0usize;
    loop {
        let row: Vec<f64> = idx.iter().map(|i| small[*i]).collect();
        k4 += 1;
        if tier == Tier::Thorough || k4 % 2 == 0 {
            v.push(Case::Matrix { mat: vec![row], bias: vec![small[k4 % small.len()]] });
        }
        let mut j = 0;
        loop { if j == 4 { break; } idx[j] += 1; if idx[j] < small.len() { break; } idx[j] = 0; j += 1; }
        if j == 4 { break; }
    }
    // longer vectors and matrices up to 3x4 by rotation patterns
    for n in 4..=6usize {
        for s in 0..vals.len() {
            for step in [1usize, 3, 5] {
                let row: Vec<f64> = (0..n).map(|j| vals[(s + j * step) % vals.len()]).collect();
                v.push(Case::Matrix { mat: vec![row], bias: vec![vals[(s + 7) % vals.len()]] });
            }
        }
    }
    for rows in 2..=3usize {
        for n in 1..=4usize {
            for s in 0..vals.len() {
                let mat: Vec<Vec<f64>> = (0..rows).map(|i| (0..n).map(|j| if (i + s) % 4 == 3 { 0.0 } else { vals[(s + i * 5 + j * 2) % vals.len()] }).collect()).collect();
                let bias: Vec<f64> = (0..rows).map(|i| vals[(s * 3 + i) % vals.len()]).collect();
                v.push(Case::Matrix { mat, bias });
            }
        }
    }
    // six-row objects exercise the default row skipping (rows >= 5 hidden)
    v.push(Case::Matrix { mat: (0..7).map(|i| vec![i as f64, -(i as f64)]).collect(), bias: (0..7).map(|i| i as f64 * 0.5).collect() });
    // 25 columns exercise the default axis skipping (positions >= 20 hidden)
    v.push(Case::Matrix { mat: vec![(0..25).map(|j| (j as f64) - 12.0).collect()], bias: vec![1.0] });
    // trees
    let r1 = |a: &[f64], b: f64| Aff::row1(a, b);
    let g = TreeGen {
        k: 2,
        preds: vec![r1(&[1.0, -2.0], 0.5), r1(&[0.0, 0.0], -1.0)],
        terms: vec![Aff::identity(2), r1(&[0.0, -0.004], 12345.678), Aff::new(vec![vec![0.0, 0.0], vec![1.0, 0.0]], vec![-0.0, 2.5])],
        max_depth: 2,
        max_nodes: if tier == Tier::Quick { 5 } else { 7 },
        partial: true,
    };
    for (i, t) in g.all().into_iter().enumerate() {
        v.push(Case::Tree { t, layout: (i % 5) as u8 });
    }
    // K = 4: predicates with two rows (and with one row), partial
    let g4 = TreeGen {
        k: 4,
        preds: vec![Aff::new(vec![vec![1.0, -2.0], vec![0.0, 0.004]], vec![0.5, -1.0]), r1(&[0.0, 1.0], 2.5)],
        terms: vec![Aff::identity(2), r1(&[0.0, -0.004], 12345.678)],
        max_depth: 2,
        max_nodes: 4,
        partial: true,
    };
    for t in g4.all() {
        v.push(Case::Tree4 { t });
    }
    v
}

pub fn run(tier: Tier) -> Report {
    let mut rep = Report::new("C19", tier, "exploration");
    let cs = cases(tier);
    let total = par_cases(&cs, |_, c| match c {
        Case::Matrix { mat, bias } => check_matrix(mat, bias),
        Case::Tree { t, layout } => check_tree(t, *layout),
        Case::Tree4 { t } => check_tree4(t),
    });
    rep.set("cases_total", cs.len() as u64);
    if let Some(Case::Matrix { mat, bias }) = cs.get(cs.len() / 4) {
        let a = Array2::from_shape_vec((1, mat[0].len()), mat[0].clone()).unwrap();
        let p = Polytope::from_mats(a, Array1::from(bias.clone()));
        rep.samples.push(json!({"mat": mat, "bias": bias, "rendered_default_poly": format!("{}", p)}));
    }
    rep.absorb(total);
    let nt = rep.coverage.get("objects_nontrivial").and_then(|v| v.as_u64()).unwrap_or(0);
    rep.set("distinct_nontrivial", nt);
    rep.set("rule", "vectors over {0,-0.0,+-1,+-0.004,+-0.005,+-2.5,+-12345.678,1e-9}: every vector of length 1-2, every 3rd of length 3 (thorough: all), rotation patterns for lengths 4-6 and matrices up to 3x4, a 7-row and a 25-column object; each rendered as function and as polytope under every combination of sort threshold {0,1,n,n+1} x simplify_zero x simplify_tautologies x normalize x 4 axis-skip ranges x (4 row-skip ranges for matrices) x precision {default,0,4} plus the default option sets; trees: all generator trees (<= 5 nodes, five storage layouts) through Display and Dot; non-trivial = some non-zero coefficient; distinct by enumeration");
    rep.set("bound", match tier { Tier::Quick => "see rule (quick selection)", Tier::Thorough => "see rule; all vectors of length 3, trees with <= 7 nodes" });
    rep.assume("a term is faithful if its text equals sign glyph + the stored value (divided by max|coeff| for normalised inequalities) formatted at the requested precision");
    rep
}
