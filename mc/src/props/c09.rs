//! C09 — reported regions agree with evaluation and partition the domain.
use super::common::*;
use crate::gen::{Aff, TSpec, TreeGen};
use crate::q::{dot, Q};
use crate::regions::{AffMap, Config, Form, Side};
use crate::report::{catch, par_cases, CaseOut, Report, Tier, Violation};
use crate::snap::{arr1_to_q, arr2_to_q, snap, to_arr1, Snap};
use affinitree::pwl::afftree::AffTree;
use serde_json::json;
use std::collections::{BTreeMap, BTreeSet};

#[derive(Clone, Debug)]
pub struct Case {
    pub t: TSpec,
    pub layout: u8,
    /// run infeasible_elimination first: nodes then carry cached feasibility states (also Infeasible ones on kept
    /// only-children), which the iterators must ignore
    pub elim_first: bool,
}

fn r1(a: &[f64], b: f64) -> Aff {
    Aff::row1(a, b)
}

pub fn cases(tier: Tier) -> Vec<Case> {
    let mut out = vec![];
    let (nn, keep1, keep2) = match tier { Tier::Quick => (7, 1, 7), Tier::Thorough => (9, 2, 17) };
    // dim 1: parallel and coincident hyperplanes
    let g1 = TreeGen {
        k: 2,
        preds: vec![r1(&[1.0], 0.0), r1(&[2.0], -0.0), r1(&[-1.0], 0.0), r1(&[1.0], 1.0)], // (one bias is -0.0)
        terms: vec![r1(&[1.0], 0.0)],
        max_depth: 3,
        max_nodes: nn,
        partial: true,
    };
    for (i, s) in g1.all().into_iter().enumerate() {
        if s.n_nodes() <= 5 || i % keep1 == 0 {
            out.push(Case { t: s.clone(), layout: (i % 5) as u8, elim_first: false });
            if i % 4 == 0 {
                out.push(Case { t: s, layout: (i % 5) as u8, elim_first: true });
            }
        }
    }
    // dim 2: concurrent (through the origin), parallel, coincident up to scaling
    let g2 = TreeGen {
        k: 2,
        preds: vec![r1(&[1.0, 0.0], 0.0), r1(&[0.0, 1.0], -0.0), r1(&[1.0, -1.0], 0.0), r1(&[1.0, 0.0], 1.0), r1(&[-2.0, 0.0], 0.0)], // (one bias is -0.0)
        terms: vec![r1(&[1.0, 1.0], 0.0)],
        max_depth: 3,
        max_nodes: nn,
        partial: true,
    };
    for (i, s) in g2.all().into_iter().enumerate() {
        if s.n_nodes() <= 4 || i % keep2 == 0 {
            out.push(Case { t: s.clone(), layout: (i % 5) as u8, elim_first: false });
            if i % 4 == 0 {
                out.push(Case { t: s, layout: (i % 5) as u8, elim_first: true });
            }
        }
    }
    out
}

/// routes like TreeSide but pushes the predicate of *every* decision as a guard, so that the
/// explorer enumerates the faces of the full arrangement of the tree's predicates
struct FullArrangement<'a>(&'a Snap);
impl Side for FullArrangement<'_> {
    fn eval(&self, x: &[Q], guards: &mut Vec<Form>) -> Result<Option<AffMap>, String> {
        let n = self.0.in_dim;
        for nd in self.0.nodes.values() {
            if !nd.isleaf {
                for i in 0..nd.mat.len() {
                    guards.push(Form::new(nd.mat[i].clone(), -nd.bias[i].clone()));
                }
            }
        }
        Ok(self.0.route(&AffMap::identity(n), n, x, guards)?.map(|(_, m)| m))
    }
}

type Rows = Vec<(Vec<Q>, Q)>;

/// plan entry standing for "skip_subtree before the first next()"
const BEFORE_FIRST: usize = usize::MAX;

fn fmt_plan(plan: &BTreeSet<usize>) -> String {
    let v: Vec<String> = plan.iter().map(|x| if *x == BEFORE_FIRST { "before the first next()".to_string() } else { x.to_string() }).collect();
    format!("{{{}}}", v.join(", "))
}

/// stream the real iterator; skip after the listed node indices (twice if `double`)
fn real_stream(t: &AffTree<2>, plan: &BTreeSet<usize>, double: bool) -> Result<Vec<(usize, usize, usize, Rows)>, String> {
    catch(|| {
        let mut it = t.polyhedra_iter();
        let mut out = vec![];
        let mut guard = 0;
        if plan.contains(&BEFORE_FIRST) {
            // no node has been reported yet: nothing may be omitted
            it.skip_subtree();
            if double {
                it.skip_subtree();
            }
        }
        while let Some((d, idx, rem, polys)) = it.next() {
            guard += 1;
            if guard > 1000 {
                panic!("iterator does not terminate");
            }
            let mut rows: Rows = vec![];
            for p in &polys {
                let m = arr2_to_q(&p.mat);
                let b = arr1_to_q(&p.bias);
                for (r, bb) in m.into_iter().zip(b.into_iter()) {
                    rows.push((r, bb));
                }
            }
            out.push((idx, d, rem, rows));
            if plan.contains(&idx) {
                it.skip_subtree();
                if double {
                    it.skip_subtree();
                }
            }
        }
        out
    })
}

/// the same through PolyhedraGen::next (mutable-access variant)
fn real_stream_gen(t: &AffTree<2>) -> Result<Vec<(usize, usize, usize, usize)>, String> {
    catch(|| {
        let mut it = t.polyhedra();
        let mut out = vec![];
        while let Some((data, polys)) = it.next(&t.tree) {
            out.push((data.index, data.depth, data.n_remaining, polys.len()));
        }
        out
    })
}

fn reference_stream(s: &Snap, skip: &BTreeSet<usize>) -> Vec<(usize, usize, usize)> {
    fn rec(s: &Snap, i: usize, d: usize, rem: usize, skip: &BTreeSet<usize>, out: &mut Vec<(usize, usize, usize)>) {
        out.push((i, d, rem));
        if skip.contains(&i) {
            return;
        }
        let ks: Vec<usize> = s.nodes[&i].children.iter().flatten().cloned().collect();
        let n = ks.len();
        for (p, c) in ks.into_iter().enumerate() {
            rec(s, c, d + 1, n - 1 - p, skip, out);
        }
    }
    let mut out = vec![];
    rec(s, s.root, 0, 0, skip, &mut out);
    out
}

pub fn run_case(c: &Case) -> CaseOut {
    let mut out = CaseOut::default();
    let mut tree: AffTree<2> = c.t.build_layout::<2>(c.layout);
    if c.elim_first && catch(|| tree.infeasible_elimination()).is_err() {
        return out;
    }
    let s = snap(&tree);
    let rec = || json!({"tree": c.t.to_json(), "layout": c.layout, "infeasible_elimination_first": c.elim_first, "arena": s.to_json()});
    let total = c.t.is_total() && !c.elim_first; // pruning may drop regions thinner than the LP tolerance
    // ---- (a) iterator stream and reported polytopes, with skips
    let order: Vec<usize> = reference_stream(&s, &BTreeSet::new()).iter().map(|x| x.0).collect();
    let mut plans: Vec<(BTreeSet<usize>, bool)> = vec![(BTreeSet::new(), false), ([BEFORE_FIRST].into_iter().collect(), false), ([BEFORE_FIRST].into_iter().collect(), true)];
    for (i, &x) in order.iter().enumerate() {
        plans.push(([x].into_iter().collect(), false));
        plans.push(([BEFORE_FIRST, x].into_iter().collect(), false));
        plans.push(([x].into_iter().collect(), true));
        for &y in order.iter().skip(i + 1) {
            plans.push(([x, y].into_iter().collect(), false));
        }
    }
    let mut reported: BTreeMap<usize, Rows> = BTreeMap::new();
    for (plan, double) in &plans {
        out.add("iterator_runs", 1);
        let exp = reference_stream(&s, plan);
        match real_stream(&tree, plan, *double) {
            Err(m) => {
                out.violate(Violation::new(format!("polyhedra_iter panicked: {m}"), rec()).tag("kind", "panic"));
                return out;
            }
            Ok(got) => {
                let got_hdr: Vec<(usize, usize, usize)> = got.iter().map(|x| (x.0, x.1, x.2)).collect();
                if got_hdr != exp {
                    let mut r = rec();
                    r["skip_after"] = json!(fmt_plan(plan));
                    r["double"] = json!(double);
                    out.violate(
                        Violation::new(format!("polyhedra_iter stream (idx,depth,remaining) {:?}, expected {:?} (skip after {}{})", got_hdr, exp, fmt_plan(plan), if *double { " twice" } else { "" }), r)
                            .tag("kind", "stream").tag("skip", if plan.is_empty() { "none" } else if *double { "double" } else { "single" }),
                    );
                    return out;
                }
                for (idx, _, _, rows) in &got {
                    let exp_rows = s.path_rows(*idx).unwrap();
                    if *rows != exp_rows {
                        let mut r = rec();
                        r["node"] = json!(idx);
                        r["skip_after"] = json!(fmt_plan(plan));
                        out.violate(
                            Violation::new(format!("node {idx}: reported path conditions differ from +-(A,b) along path_to_node (skip after {})", fmt_plan(plan)), r)
                                .tag("kind", "polytope").tag("skip", if plan.is_empty() { "none" } else { "some" }),
                        );
                        return out;
                    }
                    if plan.is_empty() {
                        reported.insert(*idx, rows.clone());
                    }
                }
            }
        }
    }
    match real_stream_gen(&tree) {
        Ok(g) => {
            let exp: Vec<(usize, usize, usize, usize)> = reference_stream(&s, &BTreeSet::new()).into_iter().map(|(i, d, r)| (i, d, r, d)).collect();
            if g != exp {
                out.violate(Violation::new("PolyhedraGen::next stream differs from the reference pre-order", rec()).tag("kind", "stream").tag("skip", "gen"));
            }
        }
        Err(m) => out.violate(Violation::new(format!("PolyhedraGen panicked: {m}"), rec()).tag("kind", "panic")),
    }
    // PolyhedraGen::with_root from every other node: pre-order of that subtree; the reported conditions are those of
    // the edges from the start node's parent down to the node (the library also reports the edge into the start node)
    for &start in s.nodes.keys().filter(|i| **i != s.root) {
        out.add("iterator_runs", 1);
        let got = catch(|| {
            let mut it = affinitree::pwl::iter::PolyhedraGen::with_root(&tree.tree, start);
            let mut v = vec![];
            let mut guard = 0;
            while let Some((data, polys)) = it.next(&tree.tree) {
                guard += 1;
                if guard > 1000 {
                    panic!("iterator does not terminate");
                }
                let mut rows: Rows = vec![];
                for p in polys.iter() {
                    for (r, bb) in arr2_to_q(&p.mat).into_iter().zip(arr1_to_q(&p.bias).into_iter()) {
                        rows.push((r, bb));
                    }
                }
                v.push((data.index, data.depth, data.n_remaining, rows));
            }
            v
        });
        match got {
            Err(m) => {
                out.violate(Violation::new(format!("PolyhedraGen::with_root({start}) panicked: {m}"), rec()).tag("kind", "panic").tag("skip", "with_root"));
                return out;
            }
            Ok(got) => {
                fn sub(s: &Snap, i: usize, d: usize, rem: usize, out: &mut Vec<(usize, usize, usize)>) {
                    out.push((i, d, rem));
                    let ks: Vec<usize> = s.nodes[&i].children.iter().flatten().cloned().collect();
                    let n = ks.len();
                    for (p, c) in ks.into_iter().enumerate() {
                        sub(s, c, d + 1, n - 1 - p, out);
                    }
                }
                let mut exp = vec![];
                sub(&s, start, 0, 0, &mut exp);
                let hdr: Vec<(usize, usize, usize)> = got.iter().map(|x| (x.0, x.1, x.2)).collect();
                if hdr != exp {
                    out.violate(Violation::new(format!("PolyhedraGen::with_root({start}) stream {:?}, expected {:?}", hdr, exp), rec()).tag("kind", "stream").tag("skip", "with_root"));
                    return out;
                }
                let skip_rows = s.path_rows(s.nodes[&start].parent.unwrap()).map(|r| r.len()).unwrap_or(0);
                for (idx, _, _, rows) in &got {
                    let full = s.path_rows(*idx).unwrap();
                    if *rows != full[skip_rows.min(full.len())..].to_vec() {
                        let mut r = rec();
                        r["node"] = json!(idx);
                        r["start"] = json!(start);
                        out.violate(Violation::new(format!("node {idx}: conditions reported by PolyhedraGen::with_root({start}) are not those of the edges from the start node's parent down to the node"), r).tag("kind", "polytope").tag("skip", "with_root"));
                        return out;
                    }
                }
            }
        }
    }
    // path_to_node of the real tree against the snapshot
    for i in s.nodes.keys() {
        let real = tree.tree.path_to_node(*i).ok();
        let exp = s.path_to(*i).ok();
        if real != exp {
            out.violate(Violation::new(format!("path_to_node({i}) = {:?}, expected {:?}", real, exp), rec()).tag("kind", "path_to_node"));
            return out;
        }
    }
    // ---- (b), (c): every face of the arrangement of the tree's own predicates
    let side = FullArrangement(&s);
    let mut errs: Vec<(String, String)> = vec![];
    let mut conf = 0u64;
    let o = refine(s.in_dim, &side, &side, &Config::default(), &mut out, &mut |face, _, _| {
        if !errs.is_empty() {
            return;
        }
        let w = &face.w;
        let (n, e) = crate::snap::conform_face(&tree, &s, face, true);
        conf += n;
        if let Some(e) = e {
            errs.push(("conformance".into(), format!("real evaluator disagrees with documented routing: {e}")));
        }
        let decs = s.decisions_at(w).unwrap();
        let routed = s.route_plain(w).unwrap();
        let mut on_route: Vec<usize> = decs.iter().map(|d| d.0).collect();
        if let Some((r, _)) = &routed {
            on_route.push(r.terminal);
        }
        // real find_terminal
        if let Some(xf) = to_arr1(w) {
            let real = catch(|| tree.find_terminal(tree.tree.get_root(), &xf).map(|(nd, labels)| {
                // identify the node index by pointer equality through the arena
                let idx = tree.tree.node_iter().find(|(_, n)| std::ptr::eq(*n, nd)).map(|(i, _)| i);
                (idx, labels)
            }));
            conf += 1;
            match (real, &routed) {
                (Ok(None), None) => {}
                (Ok(Some((Some(idx), labels))), Some((r, _))) => {
                    if idx != r.terminal {
                        errs.push(("find_terminal".into(), format!("x={:?}: find_terminal returns node {idx}, documented routing {}", crate::q::fmt_vec(w), r.terminal)));
                    }
                    let pl: Vec<usize> = tree.tree.path_to_node(idx).unwrap().iter().map(|p| p.1).collect();
                    if labels != pl {
                        errs.push(("labels_vs_path".into(), format!("x={:?}: find_terminal labels {:?} but path_to_node({idx}) has labels {:?}", crate::q::fmt_vec(w), labels, pl)));
                    }
                }
                (a, _) => errs.push(("find_terminal".into(), format!("x={:?}: find_terminal {:?} vs documented routing {:?}", crate::q::fmt_vec(w), a.map(|x| x.map(|y| y.0)), routed.as_ref().map(|r| r.0.terminal)))),
            }
        }
        // x satisfies the reported conditions of every node on its route
        for v in &on_route {
            for (a, b) in &reported[v] {
                if &dot(a, w) > b {
                    errs.push(("route_outside_reported".into(), format!("x={:?} is routed through node {v} but violates its reported path condition", crate::q::fmt_vec(w))));
                }
            }
        }
        // converse: strictly inside a node's reported polytope => routed through it
        let mut inside_terminals = 0;
        for (v, rows) in &reported {
            let strictly = rows.iter().all(|(a, b)| &dot(a, w) < b);
            if strictly {
                if !on_route.contains(v) {
                    errs.push(("interior_not_routed".into(), format!("x={:?} lies strictly inside the reported polytope of node {v} but is not routed through it", crate::q::fmt_vec(w))));
                }
                if s.nodes[v].isleaf {
                    inside_terminals += 1;
                }
            }
        }
        if face.n_eq() == 0 {
            // full-dimensional face: interiors of terminal regions are disjoint and (total trees) cover
            if inside_terminals > 1 {
                errs.push(("overlap".into(), format!("x={:?} lies in the interior of {inside_terminals} terminal regions", crate::q::fmt_vec(w))));
            }
            if total && inside_terminals != 1 {
                errs.push(("not_covered".into(), format!("x={:?} (open face of the arrangement) lies in the interior of {inside_terminals} terminal regions of a total tree", crate::q::fmt_vec(w))));
            }
            if total && routed.is_none() {
                errs.push(("not_covered".into(), format!("x={:?} is undefined in a total tree", crate::q::fmt_vec(w))));
            }
        }
    });
    let _ = o;
    out.add("traces_validated_against_impl", conf);
    for (tag, msg) in errs.into_iter().take(2) {
        out.violate(Violation::new(msg, rec()).tag("kind", "regions").tag("what", tag));
    }
    if out.sample.is_none() && s.nodes.len() >= 5 {
        out.sample = Some(json!({"tree": c.t.to_json(), "layout": c.layout, "reported": reported.iter().map(|(k, v)| (k.to_string(), v.len())).collect::<BTreeMap<_, _>>()}));
    }
    out
}

pub fn run(tier: Tier) -> Report {
    let mut rep = Report::new("C09", tier, "model_checking");
    let cs = cases(tier);
    rep.set("programs", cs.len() as u64);
    let total = par_cases(&cs, |_, c| run_case(c));
    rep.absorb(total);
    rep.set("bound", match tier {
        Tier::Quick => "binary trees with <= 7 nodes, depth <= 3, total and partial, predicates in special position (dim 1: coincident/parallel/opposite; dim 2: concurrent, parallel, negatively scaled), five storage layouts (depth-first, breadth-first, re-used indices, column-major matrices, interleaved siblings); skip plans: none, before the first next() (once, twice, and combined with every single position), every single position once and twice, every pair",
        Tier::Thorough => "same with <= 9 nodes",
    });
    rep.assume("faces of the full arrangement of the tree's predicates are enumerated; real find_terminal is called at every face whose witness is exactly representable");
    rep
}
