//! C18 — Architecture shape tracking and layer files describe the real network.
use super::common::*;
use crate::gen::Aff;
use crate::regions::Config;
use crate::report::{catch, par_cases, root, CaseOut, Report, Tier, Violation};
use crate::snap::{snap, PipeSide, TreeSide};
use affinitree::distill::arch::{Architecture, TensorShape};
use affinitree::distill::builder::{afftree_from_layers, read_layers, Layer};
use ndarray::{Array1, Array2};
use serde_json::json;

#[derive(Clone, Debug, PartialEq)]
pub enum Call {
    Linear(usize, usize, u8), // out, in, weight pattern
    PRelu(usize),
    PLeaky(usize),
    PTanh(usize),
    PSigmoid(usize),
    Relu,
    Leaky,
    Tanh,
    Sigmoid,
    Argmax,
}

fn weights(out: usize, inp: usize, pat: u8) -> Aff {
    let vals = [1.0, -1.0, 0.5, 2.0, 0.0, -2.0];
    let mat: Vec<Vec<f64>> = (0..out).map(|i| (0..inp).map(|j| vals[(i * 2 + j + pat as usize) % vals.len()]).collect()).collect();
    let bias: Vec<f64> = (0..out).map(|i| vals[(i + 3 + pat as usize) % vals.len()] * 0.5).collect();
    Aff::with_indim(mat, bias, inp)
}

impl Call {
    fn apply(&self, a: &mut Architecture) -> bool {
        match self {
            Call::Linear(o, i, p) => a.linear(weights(*o, *i, *p).to_real()).is_ok(),
            Call::PRelu(i) => a.partial_relu(*i).is_ok(),
            Call::PLeaky(i) => a.partial_leaky_relu(*i, 0.5).is_ok(),
            Call::PTanh(i) => a.partial_hard_tanh(*i).is_ok(),
            Call::PSigmoid(i) => a.partial_hard_sigmoid(*i).is_ok(),
            Call::Relu => a.relu().is_ok(),
            Call::Leaky => a.leaky_relu(0.5).is_ok(),
            Call::Tanh => a.hard_tanh().is_ok(),
            Call::Sigmoid => a.hard_sigmoid().is_ok(),
            Call::Argmax => a.argmax().is_ok(),
        }
    }
    /// reference shape tracker: Some(new dim) if dimension-compatible
    fn model(&self, d: usize) -> Option<usize> {
        match self {
            Call::Linear(o, i, _) => if *i == d { Some(*o) } else { None },
            Call::PRelu(i) | Call::PLeaky(i) | Call::PTanh(i) | Call::PSigmoid(i) => if *i < d { Some(d) } else { None },
            Call::Relu | Call::Leaky | Call::Tanh | Call::Sigmoid => Some(d),
            Call::Argmax => if d >= 2 { Some(1) } else { None },
        }
    }
    fn has_sigmoid(&self) -> bool {
        matches!(self, Call::PSigmoid(_) | Call::Sigmoid)
    }
}

fn alphabet(tier: Tier) -> Vec<Call> {
    let mut v = vec![];
    let dims: Vec<usize> = if tier == Tier::Quick { vec![1, 2, 3] } else { vec![1, 2, 3] };
    for o in &dims {
        for i in &dims {
            v.push(Call::Linear(*o, *i, 0));
        }
    }
    v.push(Call::Linear(2, 2, 1));
    for i in 0..3 {
        v.push(Call::PRelu(i));
    }
    v.push(Call::PLeaky(0));
    v.push(Call::PTanh(1));
    v.push(Call::PSigmoid(0));
    v.extend([Call::Relu, Call::Tanh, Call::Argmax]);
    if tier == Tier::Thorough {
        v.extend([Call::Leaky, Call::Sigmoid, Call::PLeaky(2), Call::PTanh(0)]);
    }
    v
}

#[derive(Clone, Debug)]
pub struct Case {
    pub d0: usize,
    pub calls: Vec<Call>,
}

pub fn cases(tier: Tier) -> Vec<Case> {
    let depth = match tier { Tier::Quick => 4, Tier::Thorough => 5 };
    let alpha = alphabet(tier);
    let mut out = vec![];
    for d0 in 1..=3usize {
        // explore the builder state machine: rejected calls do not extend the history (state unchanged,
        // which is itself checked), accepted ones do
        fn rec(d0: usize, d: usize, calls: &mut Vec<Call>, depth: usize, alpha: &[Call], out: &mut Vec<Case>, nonlinear: usize) {
            out.push(Case { d0, calls: calls.clone() });
            if calls.len() == depth {
                return;
            }
            for c in alpha {
                match c.model(d) {
                    Some(nd) => {
                        // keep distilled trees small: at most 4 activation layers in total
                        let extra = match c { Call::Linear(..) => 0, Call::Relu | Call::Leaky | Call::Tanh | Call::Sigmoid => d, _ => 1 };
                        if nonlinear + extra > 4 {
                            continue;
                        }
                        calls.push(c.clone());
                        rec(d0, nd, calls, depth, alpha, out, nonlinear + extra);
                        calls.pop();
                    }
                    None => {
                        // invalid call as the last step of a history
                        let mut cs = calls.clone();
                        cs.push(c.clone());
                        out.push(Case { d0, calls: cs });
                    }
                }
            }
        }
        rec(d0, d0, &mut vec![], depth, &alpha, &mut out, 0);
    }
    // wide layers: an accepted architecture must distill whatever its widths (64 and 70 neurons, three of them active)
    for (d0, w) in [(2usize, 64usize), (1, 70)] {
        out.push(Case { d0, calls: vec![Call::Linear(w, d0, 1), Call::PRelu(0), Call::PRelu(w / 2), Call::PTanh(w - 1), Call::Linear(1, w, 2)] });
    }
    out
}

pub fn run_case(c: &Case) -> CaseOut {
    let mut out = CaseOut::default();
    let rec = || json!({"input_dim": c.d0, "builder_calls": c.calls.iter().map(|x| format!("{:?}", x)).collect::<Vec<_>>()});
    let mut arch = Architecture::new(TensorShape::Flat { in_dim: c.d0 });
    let mut d = c.d0;
    out.add("transitions", c.calls.len() as u64);
    for (i, call) in c.calls.iter().enumerate() {
        let before_ops = arch.operators.len();
        let before_shape = arch.current_shape;
        let acc = match catch(|| { let mut a = arch.clone(); let ok = call.apply(&mut a); (ok, a) }) {
            Err(m) => {
                out.violate(Violation::new(format!("{:?} panicked: {m}", call), rec()).tag("kind", "panic").tag("call", format!("{:?}", std::mem::discriminant(call))));
                return out;
            }
            Ok((ok, a)) => {
                arch = a;
                ok
            }
        };
        let exp = call.model(d);
        if acc != exp.is_some() {
            if i + 1 == c.calls.len() {
                out.violate(
                    Violation::new(format!("{:?} on a {d}-dimensional shape was {} but is {}", call, if acc { "accepted" } else { "rejected" }, if exp.is_some() { "dimension-compatible" } else { "not dimension-compatible" }), rec())
                        .tag("kind", "accept").tag("call", callname(call)).tag("got", if acc { "accepted" } else { "rejected" }),
                );
            }
            return out;
        }
        match exp {
            None => {
                if i + 1 == c.calls.len() && (arch.operators.len() != before_ops || arch.current_shape != before_shape) {
                    // whole-layer forms may have pushed some neurons before failing; for partial forms the state must be unchanged
                    out.violate(Violation::new(format!("rejected call {:?} changed the architecture", call), rec()).tag("kind", "rejected_changed_state").tag("call", callname(call)));
                }
                return out;
            }
            Some(nd) => d = nd,
        }
        if arch.current_shape.max_dim() != d {
            if i + 1 == c.calls.len() {
                out.violate(
                    Violation::new(format!("current_shape is {} after {:?}, the network built so far has output dimension {d}", arch.current_shape, call), rec())
                        .tag("kind", "current_shape").tag("call", callname(call)),
                );
            }
            return out;
        }
    }
    if c.calls.is_empty() || c.calls.last().unwrap().model(0).is_none() && false {
        return out;
    }
    // every prefix was handled by a shorter case; distill the whole architecture
    let layers: Vec<Layer> = arch.operators().cloned().collect();
    let n = layers.len();
    if n == 0 {
        return out;
    }
    out.add("real_executions", 1);
    let full = match catch(|| afftree_from_layers(c.d0, &layers, None)) {
        Err(m) => {
            out.violate(Violation::new(format!("accepted architecture does not distill: {m}"), rec()).tag("kind", "distill_panic").tag("last", callname(c.calls.last().unwrap())));
            return out;
        }
        Ok(t) => t,
    };
    let sf = snap(&full);
    out.add("states", 1);
    if let Err((tag, msg)) = well_formed(&sf, Some(d)) {
        out.violate(Violation::new(format!("distilled tree vs current_shape {d}: {msg}"), rec()).tag("kind", "shape_vs_tree").tag("inv", tag));
        return out;
    }
    if c.calls.iter().any(|x| x.has_sigmoid()) {
        out.add("split_checks_skipped_nondyadic", 1);
        return out;
    }
    // split points
    for k in 1..n {
        out.add("real_executions", 2);
        let parts = catch(|| {
            let a = arch.extract_range(0, k).map_err(|e| e.to_string())?;
            let b = arch.extract_range(k, n).map_err(|e| e.to_string())?;
            Ok::<_, String>((a, b))
        });
        let (a, b) = match parts {
            Ok(Ok(x)) => x,
            Ok(Err(e)) => {
                out.violate(Violation::new(format!("extract_range at split {k} of {n} failed: {e}"), rec()).tag("kind", "extract_range"));
                continue;
            }
            Err(m) => {
                out.violate(Violation::new(format!("extract_range panicked: {m}"), rec()).tag("kind", "panic").tag("call", "extract_range"));
                continue;
            }
        };
        if a.operators.len() != k || b.operators.len() != n - k || a.input_shape.max_dim() != c.d0 {
            out.violate(Violation::new(format!("extract_range({k}) returned {} + {} operators of {n}", a.operators.len(), b.operators.len()), rec()).tag("kind", "extract_range"));
            continue;
        }
        // the parts record, for every operator, the same shape as the whole does; and a range taken from a part is
        // the same architecture as that range taken from the whole (nested extraction)
        let shapes = |x: &affinitree::distill::arch::Architecture| -> Vec<String> { x.operators.iter().map(|(_, s)| format!("{:?}", s)).collect() };
        let whole = shapes(&arch);
        if shapes(&a) != whole[..k].to_vec() || shapes(&b) != whole[k..].to_vec() || format!("{:?}", a.current_shape) != whole[k - 1] || format!("{:?}", b.current_shape) != whole[n - 1] {
            out.violate(Violation::new(format!("extract_range at split {k}: the parts record other shapes than the whole architecture"), rec()).tag("kind", "extract_range").tag("what", "recorded_shapes"));
            continue;
        }
        let mut nested_bad = None;
        for j in 1..k {
            let direct = (arch.extract_range(0, j), arch.extract_range(j, k));
            let nested = (a.extract_range(0, j), a.extract_range(j, k));
            if format!("{:?}", direct) != format!("{:?}", nested) {
                nested_bad = Some(format!("ranges 0..{j} / {j}..{k} of the part 0..{k}"));
            }
        }
        for j in 1..(n - k) {
            let direct = (arch.extract_range(k, k + j), arch.extract_range(k + j, n));
            let nested = (b.extract_range(0, j), b.extract_range(j, n - k));
            if format!("{:?}", direct) != format!("{:?}", nested) {
                nested_bad = Some(format!("ranges 0..{j} / {j}..{} of the part {k}..{n}", n - k));
            }
        }
        if let Some(w) = nested_bad {
            out.violate(Violation::new(format!("nested extract_range differs from the direct one: {w}"), rec()).tag("kind", "extract_range").tag("what", "nested"));
            continue;
        }
        let din = b.input_shape.max_dim();
        let la: Vec<Layer> = a.operators().cloned().collect();
        let lb: Vec<Layer> = b.operators().cloned().collect();
        let trees = catch(|| (afftree_from_layers(c.d0, &la, None), afftree_from_layers(din, &lb, None)));
        let (ta, tb) = match trees {
            Err(m) => {
                out.violate(Violation::new(format!("parts of split {k} do not distill (second part over input shape {din}): {m}"), rec()).tag("kind", "split_distill_panic"));
                continue;
            }
            Ok(x) => x,
        };
        if a.current_shape.max_dim() != din {
            out.violate(Violation::new(format!("split {k}: first part ends with shape {}, second starts with {}", a.current_shape, b.input_shape), rec()).tag("kind", "split_shapes"));
            continue;
        }
        // the same through the precondition entry point: the second part distilled on top of the first part's tree
        out.add("real_executions", 1);
        match catch(|| afftree_from_layers(c.d0, &lb, Some(ta.clone()))) {
            Err(m) => {
                out.violate(Violation::new(format!("split {k}: distilling the second part with the first part's tree as precondition panicked: {m}"), rec()).tag("kind", "split_precondition").tag("what", "panic"));
                continue;
            }
            Ok(tp) => {
                let sp = snap(&tp);
                let o = refine(c.d0, &TreeSide(&sp), &TreeSide(&sf), &Config::default(), &mut out, &mut |_, _, _| {});
                if let Some(m) = o.mismatches.first() {
                    let mut r = rec();
                    r["split"] = json!(k);
                    out.violate(Violation::new(format!("split {k}: second part on top of the first part (precondition) differs from the whole: {}", mismatch_summary(m)), r).tag("kind", "split_precondition").tag("what", "function"));
                }
            }
        }
        let (sa, sb) = (snap(&ta), snap(&tb));
        let pipe = PipeSide(vec![&sa, &sb]);
        let imp = TreeSide(&sf);
        let o = refine(c.d0, &imp, &pipe, &Config::default(), &mut out, &mut |_, _, _| {});
        if let Some(m) = o.mismatches.first() {
            let mut r = rec();
            r["split"] = json!(k);
            r["mismatch"] = m.to_json();
            out.violate(Violation::new(format!("tree(0..{k}) then tree({k}..{n}) differs from tree(0..{n}): {}", mismatch_summary(m)), r).tag("kind", "split_function"));
        }
    }
    if out.sample.is_none() && n >= 3 {
        out.sample = Some(json!({"case": rec(), "operators": n, "tree_nodes": sf.nodes.len()}));
    }
    out
}

fn callname(c: &Call) -> &'static str {
    match c {
        Call::Linear(..) => "linear",
        Call::PRelu(_) => "partial_relu",
        Call::PLeaky(_) => "partial_leaky_relu",
        Call::PTanh(_) => "partial_hard_tanh",
        Call::PSigmoid(_) => "partial_hard_sigmoid",
        Call::Relu => "relu",
        Call::Leaky => "leaky_relu",
        Call::Tanh => "hard_tanh",
        Call::Sigmoid => "hard_sigmoid",
        Call::Argmax => "argmax",
    }
}

// ---------------------------------------------------------------------------------------------
// read_layers

#[derive(Clone, Debug)]
pub struct FileCase {
    pub widths: Vec<usize>, // input, then one per linear layer
    pub markers: Vec<u8>,   // after each linear: 0 none, 1 relu, 2 hard_tanh, 3 hard_sigmoid; m >= 4: two markers (m/4, m%4)
    pub pat: u8,
    /// number of digits of the entry indices (the shipped files use 3; the dialect accepts any uniform width)
    pub name_width: usize,
    /// weight matrices stored column-major (numpy writes `fortran_order: True` for such arrays, e.g. `W.T`)
    pub fortran: bool,
}

pub fn file_cases(tier: Tier) -> Vec<FileCase> {
    let mut v = vec![];
    let maxl = 3;
    for nl in 1..=maxl {
        // widths: input + nl outputs, each in 1..=3
        let mut w = vec![1usize; nl + 1];
        loop {
            let mut mk = vec![0u8; nl];
            loop {
                let pats: &[u8] = if tier == Tier::Quick && nl == 3 { &[0] } else { &[0, 1] };
                for p in pats {
                    v.push(FileCase { widths: w.clone(), markers: mk.clone(), pat: *p, name_width: 3, fortran: false });
                }
                let mut k = 0;
                loop { if k == nl { break; } mk[k] += 1; if mk[k] < 4 { break; } mk[k] = 0; k += 1; }
                if k == nl { break; }
            }
            let mut k = 0;
            loop { if k == nl + 1 { break; } w[k] += 1; if w[k] <= 3 { break; } w[k] = 1; k += 1; }
            if k == nl + 1 { break; }
        }
    }
    // two activation markers after the same linear layer (e.g. relu then hard_tanh)
    for nl in 1..=2usize {
        for first in 1..4u8 {
            for second in 1..4u8 {
                for w in 1..=3usize {
                    let widths: Vec<usize> = (0..=nl).map(|i| 1 + (i + w) % 3).collect();
                    let mut markers = vec![0u8; nl];
                    markers[0] = first * 4 + second;
                    v.push(FileCase { widths: widths.clone(), markers: markers.clone(), pat: w as u8, name_width: 3, fortran: false });
                    if nl == 2 {
                        markers[1] = second * 4 + first;
                        v.push(FileCase { widths, markers, pat: w as u8, name_width: 3, fortran: false });
                    }
                }
            }
        }
    }
    // long files: more than 10 entries so that the name sort matters
    for nl in [6usize, 7] {
        for s in 0..4u8 {
            let widths: Vec<usize> = (0..=nl).map(|i| 1 + (i + s as usize) % 3).collect();
            let markers: Vec<u8> = (0..nl).map(|i| ((i as u8 + s) % 3) + 1).collect();
            v.push(FileCase { widths, markers, pat: s, name_width: 3, fortran: false });
        }
    }
    // every 3rd file once more with another index width and / or column-major weight entries
    let extra: Vec<FileCase> = v
        .iter()
        .enumerate()
        .filter(|(i, _)| i % 3 == 0)
        .map(|(i, c)| {
            let entries = 1 + c.markers.iter().map(|m| 1 + if *m >= 4 { 2 } else if *m != 0 { 1 } else { 0 }).sum::<usize>();
            let mut w = [1usize, 2, 4, 3][(i / 3) % 4];
            if w == 1 && entries > 10 {
                w = 2;
            }
            let mut c = c.clone();
            c.name_width = w;
            c.fortran = (i / 3) % 2 == 0 || w == 3;
            c
        })
        .collect();
    v.extend(extra);
    v
}

pub fn run_file_case(idx: usize, c: &FileCase) -> CaseOut {
    use ndarray_npy::NpzWriter;
    let mut out = CaseOut::default();
    let rec = || json!({"widths": c.widths, "markers(0=none,1=relu,2=hard_tanh,3=hard_sigmoid)": c.markers, "weight_pattern": c.pat, "index_digits": c.name_width, "column_major_weights": c.fortran});
    let dir = root().join(".work").join("c18");
    let _ = std::fs::create_dir_all(&dir);
    let path = dir.join(format!("net-{}-{}.npz", std::process::id(), idx));
    let mut expected: Vec<(String, Option<Aff>, usize)> = vec![]; // kind, weights, index
    {
        let file = std::fs::File::create(&path).expect("cannot create npz");
        let mut w = NpzWriter::new(file);
        let mut counter = 0usize;
        // written in a scrambled order on purpose: the reader must sort by name
        let mut entries: Vec<(String, Option<(Array2<f64>, Array1<f64>)>)> = vec![];
        for l in 0..c.markers.len() {
            let a = weights(c.widths[l + 1], c.widths[l], c.pat.wrapping_add(l as u8));
            let r = a.to_real();
            let r = if c.fortran { a.to_real_f() } else { r };
            entries.push((format!("{:0w$}.linear", counter, w = c.name_width), Some((r.mat.clone(), r.bias.clone()))));
            expected.push(("linear".into(), Some(a), 0));
            counter += 1;
            let m = c.markers[l];
            let ms: Vec<u8> = if m >= 4 { vec![m / 4, m % 4] } else if m != 0 { vec![m] } else { vec![] };
            for m in ms {
                let name = ["", "relu", "hard_tanh", "hard_sigmoid"][m as usize];
                entries.push((format!("{:0w$}.{}", counter, name, w = c.name_width), None));
                for i in 0..c.widths[l + 1] {
                    expected.push((name.to_string(), None, i));
                }
                counter += 1;
            }
        }
        // (the "layers" entry sorts first whatever its own width: all other indices are >= 0 with the file's width)
        w.add_array(format!("{:0w$}.layers.npy", 0, w = c.name_width), &Array1::<f64>::zeros(1)).unwrap();
        for (name, data) in entries.iter().rev() {
            match data {
                Some((m, b)) => {
                    w.add_array(format!("{name}.bias.npy"), b).unwrap();
                    w.add_array(format!("{name}.weights.npy"), m).unwrap();
                }
                None => w.add_array(format!("{name}.npy"), &Array1::<f64>::zeros(1)).unwrap(),
            }
        }
        w.finish().unwrap();
    }
    out.add("real_executions", 1);
    out.add("transitions", 1);
    out.add("states", 1);
    let res = catch(|| read_layers(&path));
    let _ = std::fs::remove_file(&path);
    match res {
        Err(m) => out.violate(Violation::new(format!("read_layers panicked: {m}"), rec()).tag("kind", "read_layers").tag("what", "panic")),
        Ok(Err(e)) => out.violate(Violation::new(format!("read_layers failed: {e}"), rec()).tag("kind", "read_layers").tag("what", "error")),
        Ok(Ok(layers)) => {
            let mut ok = layers.len() == expected.len();
            if ok {
                for (l, (kind, w, i)) in layers.iter().zip(expected.iter()) {
                    ok &= match (l, kind.as_str()) {
                        (Layer::Linear(a), "linear") => Aff::from_real(a) == *w.as_ref().unwrap(),
                        (Layer::ReLU(j), "relu") => j == i,
                        (Layer::HardTanh(j), "hard_tanh") => j == i,
                        (Layer::HardSigmoid(j), "hard_sigmoid") => j == i,
                        _ => false,
                    };
                }
            }
            if !ok {
                out.violate(
                    Violation::new(format!("read_layers returned {:?}", layers.iter().map(|l| match l { Layer::Linear(a) => format!("Linear {}x{}", a.outdim(), a.indim()), o => format!("{:?}", o) }).collect::<Vec<_>>()), rec())
                        .tag("kind", "read_layers").tag("what", "content"),
                );
            }
        }
    }
    out
}

pub fn run(tier: Tier) -> Report {
    let mut rep = Report::new("C18", tier, "model_checking");
    let cs = cases(tier);
    rep.set("builder_histories", cs.len() as u64);
    let total = par_cases(&cs, |_, c| run_case(c));
    rep.absorb(total);
    let fc = file_cases(tier);
    rep.set("layer_files", fc.len() as u64);
    let t2 = par_cases(&fc, |i, c| run_file_case(i, c));
    rep.absorb(t2);
    let tr = rep.coverage.get("real_executions").and_then(|v| v.as_u64()).unwrap_or(0);
    rep.set("traces_validated_against_impl", tr);
    rep.set("bound", match tier {
        Tier::Quick => "every sequence of <= 4 accepted builder calls (plus one rejected call at the end) from Flat{1..3} over 20 calls: linear of every shape in {1,2,3}^2 (two weight patterns for 2x2), partial_relu(0..2), partial leaky/tanh/sigmoid, relu(), hard_tanh(), argmax(); <= 4 activation neurons per architecture; every split point; layer files: every list of 1-3 linear layers with widths 1..3 and every marker in {none, relu, hard_tanh, hard_sigmoid}, plus 8 files with 6-7 linear layers (> 10 entries)",
        Tier::Thorough => "sequences of <= 5 accepted calls over 24 calls; layer files with two weight patterns each",
    });
    rep.assume("dimension-compatible: linear needs indim == current dim; partial forms need idx < dim; argmax needs >= 2 components and yields 1; split equivalence skipped for architectures containing hard_sigmoid (1/6 is not dyadic)");
    rep
}
