//! C12 — the arena tree stays structurally consistent under any operation sequence.
//! Explicit-state BFS over operation histories on the real `Tree<u8, K>`;
//! cross-checked with stateright (unique state counts must agree).
use crate::report::{catch, CaseOut, Report, Tier, Violation};
use affinitree::tree::graph::Tree;
use serde_json::json;
use std::collections::{BTreeMap, HashMap, HashSet, VecDeque};

#[derive(Clone, Debug, PartialEq, Eq, Hash)]
pub enum Act {
    Add(usize, usize, u8),
    Remove(usize, usize),
    RemoveDesc(usize),
    Merge(usize, usize),
    Update(usize, u8),
}

/// canonical form of the arena: root, live nodes, and the slab's free list as observed by
/// probing a clone (DESIGN A4)
#[derive(Clone, Debug, PartialEq, Eq, Hash)]
pub struct Canon {
    pub root: usize,
    pub nodes: Vec<(usize, u8, Option<usize>, Vec<Option<usize>>, bool)>,
    pub probe: Vec<usize>,
}

pub fn canon<const K: usize>(t: &Tree<u8, K>, probe_len: usize) -> Canon {
    let nodes: Vec<_> = t
        .node_iter()
        .map(|(i, n)| (i, n.value, n.parent, n.children.to_vec(), n.isleaf))
        .collect();
    let mut c = t.clone();
    let mut probe = vec![];
    let need = probe_len.saturating_sub(t.len());
    for _ in 0..need {
        probe.push(c.add_root(0));
    }
    Canon { root: t.get_root_idx(), nodes, probe }
}

/// reference model: plain map of nodes
#[derive(Clone, Debug, PartialEq, Eq)]
pub struct Model {
    pub k: usize,
    pub root: usize,
    pub nodes: BTreeMap<usize, (u8, Option<usize>, Vec<Option<usize>>)>,
}

#[derive(Debug, PartialEq, Eq)]
pub enum MRes {
    Err,
    NewIdx,           // add: some fresh index (which one is the slab's business)
    Value(u8),        // removed / replaced value
    Count(i32),       // number of deleted descendants
    MergedValue(u8),  // value of the removed (merged) node
}

impl Model {
    pub fn from_canon(k: usize, c: &Canon) -> Model {
        Model { k, root: c.root, nodes: c.nodes.iter().map(|(i, v, p, ch, _)| (*i, (*v, *p, ch.clone()))).collect() }
    }
    fn descendants(&self, i: usize) -> Vec<usize> {
        let mut out = vec![];
        let mut st: Vec<usize> = self.nodes[&i].2.iter().flatten().cloned().collect();
        while let Some(x) = st.pop() {
            out.push(x);
            st.extend(self.nodes[&x].2.iter().flatten().cloned());
        }
        out
    }
    /// applies the action; for Add the real new index must be supplied by the caller
    pub fn step(&mut self, a: &Act, new_idx: Option<usize>) -> MRes {
        match a {
            Act::Add(p, l, v) => {
                if !self.nodes.contains_key(p) || self.nodes[p].2[*l].is_some() {
                    return MRes::Err;
                }
                if let Some(ni) = new_idx {
                    self.nodes.get_mut(p).unwrap().2[*l] = Some(ni);
                    self.nodes.insert(ni, (*v, Some(*p), vec![None; self.k]));
                }
                MRes::NewIdx
            }
            Act::Remove(p, l) => {
                let c = match self.nodes.get(p).and_then(|n| n.2[*l]) {
                    Some(c) => c,
                    None => return MRes::Err,
                };
                for d in self.descendants(c) {
                    self.nodes.remove(&d);
                }
                let v = self.nodes.remove(&c).unwrap().0;
                self.nodes.get_mut(p).unwrap().2[*l] = None;
                MRes::Value(v)
            }
            Act::RemoveDesc(i) => {
                if !self.nodes.contains_key(i) {
                    return MRes::Err;
                }
                let ds = self.descendants(*i);
                for d in &ds {
                    self.nodes.remove(d);
                }
                for c in self.nodes.get_mut(i).unwrap().2.iter_mut() {
                    *c = None;
                }
                MRes::Count(ds.len() as i32)
            }
            Act::Merge(i, l) => {
                // caller guarantees: i exists and has exactly one child
                if *i == self.root {
                    return MRes::Err;
                }
                let c = match self.nodes[i].2[*l] {
                    Some(c) => c,
                    None => return MRes::Err,
                };
                let gp = self.nodes[i].1.unwrap();
                let gl = self.nodes[&gp].2.iter().position(|x| *x == Some(*i)).unwrap();
                self.nodes.get_mut(&gp).unwrap().2[gl] = Some(c);
                self.nodes.get_mut(&c).unwrap().1 = Some(gp);
                let v = self.nodes.remove(i).unwrap().0;
                MRes::MergedValue(v)
            }
            Act::Update(i, v) => match self.nodes.get_mut(i) {
                None => MRes::Err,
                Some(n) => {
                    let old = n.0;
                    n.0 = *v;
                    MRes::Value(old)
                }
            },
        }
    }
}

pub fn actions<const K: usize>(t: &Tree<u8, K>, max_len: usize) -> Vec<Act> {
    let max_idx = t.node_indices().max().unwrap_or(0);
    let mut v = vec![];
    let addv = (t.len() % 2) as u8;
    for p in 0..=max_idx + 1 {
        for l in 0..K {
            if t.len() < max_len {
                v.push(Act::Add(p, l, addv));
            }
            v.push(Act::Remove(p, l));
        }
        v.push(Act::RemoveDesc(p));
        if t.contains(p) && t.num_children(p) == 1 {
            for l in 0..K {
                v.push(Act::Merge(p, l));
            }
        }
        for val in 0..2u8 {
            v.push(Act::Update(p, val));
        }
    }
    v
}

/// apply to the real tree; Ok(real result) or Err(panic message)
pub fn apply<const K: usize>(t: &mut Tree<u8, K>, a: &Act) -> Result<(MRes, Option<usize>), String> {
    catch(|| match a {
        Act::Add(p, l, v) => match t.add_child_node(*p, *l, *v) {
            Ok(i) => (MRes::NewIdx, Some(i)),
            Err(_) => (MRes::Err, None),
        },
        Act::Remove(p, l) => match t.try_remove_child(*p, *l) {
            Ok(v) => (MRes::Value(v), None),
            Err(_) => (MRes::Err, None),
        },
        Act::RemoveDesc(i) => match t.remove_all_descendants(*i) {
            Ok(n) => (MRes::Count(n), None),
            Err(_) => (MRes::Err, None),
        },
        Act::Merge(i, l) => match t.merge_child_with_parent(*i, *l) {
            Ok(n) => (MRes::MergedValue(n.value), None),
            Err(_) => (MRes::Err, None),
        },
        Act::Update(i, v) => match t.update_node(*i, *v) {
            Ok(o) => (MRes::Value(o), None),
            Err(_) => (MRes::Err, None),
        },
    })
}

/// structural invariants of one state; returns a description of the first failure
pub fn invariant<const K: usize>(t: &Tree<u8, K>) -> Result<(), (String, String)> {
    let nodes: BTreeMap<usize, _> = t.node_iter().collect();
    let mut parentless = vec![];
    for (i, n) in &nodes {
        if n.isleaf != n.children.iter().all(|c| c.is_none()) {
            return Err(("isleaf".into(), format!("node {i}: isleaf={} but children={:?}", n.isleaf, n.children)));
        }
        for (l, c) in n.children.iter().enumerate() {
            if let Some(c) = c {
                match nodes.get(c) {
                    None => return Err(("dangling_child".into(), format!("node {i} label {l} -> missing {c}"))),
                    Some(cn) => {
                        if cn.parent != Some(*i) {
                            return Err(("link_mirror".into(), format!("child {c} of {i} has parent {:?}", cn.parent)));
                        }
                    }
                }
            }
        }
        match n.parent {
            None => parentless.push(*i),
            Some(p) => match nodes.get(&p) {
                None => return Err(("dangling_parent".into(), format!("node {i} has missing parent {p}"))),
                Some(pn) => {
                    if pn.children.iter().filter(|c| **c == Some(*i)).count() != 1 {
                        return Err(("link_mirror".into(), format!("parent {p} does not list {i} exactly once")));
                    }
                }
            },
        }
    }
    if parentless != vec![t.get_root_idx()] {
        return Err(("root".into(), format!("parent-less nodes {:?}, root {}", parentless, t.get_root_idx())));
    }
    // reachability
    let mut seen = HashSet::new();
    let mut st = vec![t.get_root_idx()];
    while let Some(x) = st.pop() {
        if !seen.insert(x) {
            return Err(("cycle".into(), format!("node {x} reached twice")));
        }
        st.extend(nodes[&x].children.iter().flatten().cloned());
    }
    if seen.len() != t.len() || nodes.len() != t.len() {
        return Err((
            "reachability".into(),
            format!("len()={} node_iter={} reachable={}", t.len(), nodes.len(), seen.len()),
        ));
    }
    Ok(())
}

pub struct Explored<const K: usize> {
    pub states: Vec<(Tree<u8, K>, Vec<Act>)>,
    pub transitions: u64,
    pub by_depth: Vec<usize>,
}

/// breadth-first exploration; calls `on_edge` for every transition
pub fn bfs<const K: usize>(
    depth: usize,
    max_len: usize,
    out: &mut CaseOut,
    check: bool,
) -> Explored<K> {
    let probe_len = depth + 3;
    let init: Tree<u8, K> = Tree::with_root(0u8, 1);
    let mut seen: HashMap<Canon, usize> = HashMap::new();
    let mut states: Vec<(Tree<u8, K>, Vec<Act>)> = vec![];
    let mut queue: VecDeque<(usize, usize)> = VecDeque::new();
    seen.insert(canon(&init, probe_len), 0);
    states.push((init, vec![]));
    queue.push_back((0, 0));
    let mut transitions = 0u64;
    let mut by_depth = vec![1usize];
    while let Some((si, d)) = queue.pop_front() {
        if d >= depth {
            continue;
        }
        let stored = canon(&states[si].0, probe_len);
        let (tree, hist) = states[si].clone();
        let before = canon(&tree, probe_len);
        // the copy the actions are applied to must be the same arena (Clone is an operation of the tree, too)
        if before != stored || invariant(&tree).is_err() != invariant(&states[si].0).is_err() {
            if check {
                out.violate(
                    Violation::new(
                        "clone() of the tree is not the same arena (indices, links, values or future indices differ)",
                        json!({"K": K, "history": hist.iter().map(|x| format!("{:?}", x)).collect::<Vec<_>>(), "original": format!("{:?}", stored.nodes), "clone": format!("{:?}", before.nodes)}),
                    )
                    .tag("kind", "clone").tag("op", "clone"),
                );
            }
            continue;
        }
        for a in actions(&tree, max_len) {
            transitions += 1;
            let mut t2 = tree.clone();
            let mut hist2 = hist.clone();
            hist2.push(a.clone());
            let rec = || json!({"K": K, "history": hist2.iter().map(|x| format!("{:?}", x)).collect::<Vec<_>>(), "state_before": format!("{:?}", before.nodes)});
            // read-only queries before the action (a cached answer must not survive the mutation that follows)
            let _ = catch(|| (t2.depth(), t2.len(), t2.num_terminals()));
            let res = apply(&mut t2, &a);
            let (res, new_idx) = match res {
                Err(msg) => {
                    if check {
                        out.violate(Violation::new(format!("{:?} panicked: {msg}", a), rec()).tag("kind", "panic").tag("op", opname(&a)));
                    }
                    continue;
                }
                Ok(r) => r,
            };
            let after = canon(&t2, probe_len);
            if check {
                let mut model = Model::from_canon(K, &before);
                let exp = model.step(&a, new_idx);
                let opn = opname(&a);
                if exp != res {
                    out.violate(Violation::new(format!("{:?}: real result {:?}, model {:?}", a, res, exp), rec()).tag("kind", "result").tag("op", opn));
                } else if res == MRes::Err {
                    if after != before {
                        // observable through the public API only (len, node_iter, probe of future indices)
                        let what = if after.nodes != before.nodes { "nodes" } else { "free_list_or_len" };
                        out.violate(
                            Violation::new(format!("{:?} returned Err but changed the tree ({what}): len {} -> {}", a, tree.len(), t2.len()), rec())
                                .tag("kind", "err_not_atomic")
                                .tag("op", opn)
                                .tag("changed", what),
                        );
                    }
                } else {
                    if let Some(ni) = new_idx {
                        if before.nodes.iter().any(|n| n.0 == ni) {
                            out.violate(Violation::new(format!("{:?} returned the index {ni} of a live node", a), rec()).tag("kind", "index_reuse_live").tag("op", opn));
                        }
                    }
                    let got = Model::from_canon(K, &after);
                    if got != model {
                        out.violate(Violation::new(format!("{:?}: node set after the call differs from the reference arena", a), rec()).tag("kind", "model_mismatch").tag("op", opn));
                    }
                }
                if let Err((k, msg)) = invariant(&t2) {
                    out.violate(Violation::new(format!("after {:?}: {msg}", a), rec()).tag("kind", "invariant").tag("inv", k).tag("op", opn));
                    continue; // do not explore from corrupted states
                }
            } else if let Err((tag, _)) = invariant(&t2) {
                // C13 still looks at states whose only flaw is a stale leaf flag: its metrics
                // (terminals, decisions, depth_stats) read that flag
                if tag != "isleaf" {
                    continue;
                }
            }
            if !seen.contains_key(&after) {
                if check {
                    if let Err(msg) = accessors(&t2) {
                        out.violate(Violation::new(format!("accessors disagree with the arena: {msg}"), rec()).tag("kind", "accessor").tag("op", "accessors"));
                    }
                    out.add("accessor_checks", 1);
                    if let Err((op, msg)) = edge_calls(&t2, probe_len) {
                        out.violate(Violation::new(msg, rec()).tag("kind", "edge_call").tag("op", op));
                    }
                }
                let id = states.len();
                seen.insert(after, id);
                states.push((t2, hist2));
                queue.push_back((id, d + 1));
                if by_depth.len() <= d + 1 {
                    by_depth.push(0);
                }
                by_depth[d + 1] += 1;
            }
        }
    }
    Explored { states, transitions, by_depth }
}

/// The read and write accessors of one (well-formed) state agree with the arena. Every node gets its own index as
/// value first, so that a swapped or misdirected reference is visible.
pub fn accessors<const K: usize>(t0: &Tree<u8, K>) -> Result<(), String> {
    let r = catch(|| -> Result<(), String> {
        let mut t = t0.clone();
        let idxs: Vec<usize> = t.node_indices().collect();
        for &i in &idxs {
            t.update_node(i, i as u8).map_err(|e| format!("update_node({i}): {e:?}"))?;
        }
        let arena: BTreeMap<usize, (Option<usize>, Vec<Option<usize>>, bool)> = t.node_iter().map(|(i, n)| (i, (n.parent, n.children.to_vec(), n.isleaf))).collect();
        let free = (0..idxs.len() + 2).find(|i| !arena.contains_key(i)).unwrap();
        if t.contains(free) || t.tree_node(free).is_ok() || t.node_value(free).is_ok() || t.is_leaf(free).is_ok() {
            return Err(format!("index {free} is not in the arena but an accessor accepts it"));
        }
        for (&i, (par, ch, leaf)) in &arena {
            if !t.contains(i) || *t.node_value(i).map_err(|e| format!("{e:?}"))? != i as u8 || t.is_leaf(i).ok() != Some(*leaf) || t.is_root(i) != (i == t.get_root_idx()) {
                return Err(format!("contains / node_value / is_leaf / is_root wrong for node {i}"));
            }
            if t.num_children(i) != ch.iter().flatten().count() {
                return Err(format!("num_children({i}) = {}", t.num_children(i)));
            }
            let listed: Vec<(usize, usize, usize, u8, u8)> = t.children(i).map(|e| (e.source_idx, e.label, e.target_idx, *e.source_value, *e.target_value)).collect();
            let expect: Vec<(usize, usize, usize, u8, u8)> = ch.iter().enumerate().filter_map(|(l, c)| c.map(|c| (i, l, c, i as u8, c as u8))).collect();
            if listed != expect {
                return Err(format!("children({i}) = {:?}, arena {:?}", listed, expect));
            }
            for (l, c) in ch.iter().enumerate() {
                match c {
                    None => {
                        if t.child(i, l).is_ok() || t.child_mut(i, l).is_ok() {
                            return Err(format!("child({i},{l}) exists although the slot is empty"));
                        }
                    }
                    Some(c) => {
                        let e = t.child(i, l).map_err(|e| format!("child({i},{l}): {e:?}"))?;
                        if (e.source_idx, e.label, e.target_idx, *e.source_value, *e.target_value) != (i, l, *c, i as u8, *c as u8) {
                            return Err(format!("child({i},{l}) = ({}, {}, {}, values {} {})", e.source_idx, e.label, e.target_idx, e.source_value, e.target_value));
                        }
                        {
                            let e = t.child_mut(i, l).map_err(|e| format!("child_mut({i},{l}): {e:?}"))?;
                            if (e.source_idx, e.label, e.target_idx, *e.source_value, *e.target_value) != (i, l, *c, i as u8, *c as u8) {
                                return Err(format!("child_mut({i},{l}) = ({}, {}, {}, values {} {})", e.source_idx, e.label, e.target_idx, e.source_value, e.target_value));
                            }
                            *e.target_value = 200;
                        }
                        if *t.node_value(*c).unwrap() != 200 || *t.node_value(i).unwrap() != i as u8 {
                            return Err(format!("a write through child_mut({i},{l}).target_value did not reach node {c} only"));
                        }
                        t.update_node(*c, *c as u8).unwrap();
                        {
                            let e = t.parent_mut(*c).map_err(|e| format!("parent_mut({c}): {e:?}"))?;
                            if (e.source_idx, e.label, e.target_idx, *e.source_value, *e.target_value) != (i, l, *c, i as u8, *c as u8) {
                                return Err(format!("parent_mut({c}) = ({}, {}, {}, values {} {})", e.source_idx, e.label, e.target_idx, e.source_value, e.target_value));
                            }
                            *e.source_value = 201;
                        }
                        if *t.node_value(i).unwrap() != 201 || *t.node_value(*c).unwrap() != *c as u8 {
                            return Err(format!("a write through parent_mut({c}).source_value did not reach node {i} only"));
                        }
                        t.update_node(i, i as u8).unwrap();
                        let (a, b) = t.tree_node2_mut(*c, i).map_err(|e| format!("tree_node2_mut: {e:?}"))?;
                        if a.value != *c as u8 || b.value != i as u8 {
                            return Err(format!("tree_node2_mut({c},{i}) returned the nodes holding {} and {}", a.value, b.value));
                        }
                    }
                }
            }
            match par {
                None => {
                    if t.parent(i).is_ok() || t.parent_mut(i).is_ok() {
                        return Err(format!("parent({i}) exists for the root"));
                    }
                }
                Some(p) => {
                    let e = t.parent(i).map_err(|e| format!("parent({i}): {e:?}"))?;
                    let l = arena[p].1.iter().position(|x| *x == Some(i)).unwrap();
                    if (e.source_idx, e.label, e.target_idx, *e.source_value, *e.target_value) != (*p, l, i, *p as u8, i as u8) {
                        return Err(format!("parent({i}) = ({}, {}, {})", e.source_idx, e.label, e.target_idx));
                    }
                }
            }
        }
        let tm: Vec<(usize, u8)> = t.terminals_mut().map(|n| (n.idx, *n.value)).collect();
        let te: Vec<(usize, u8)> = arena.iter().filter(|(_, v)| v.2).map(|(i, _)| (*i, *i as u8)).collect();
        if tm != te {
            return Err(format!("terminals_mut = {:?}, arena terminals {:?}", tm, te));
        }
        Ok(())
    });
    match r {
        Ok(x) => x,
        Err(m) => Err(format!("an accessor panicked: {m}")),
    }
}

/// Calls that are not part of the explored alphabet, each on a copy of the state: a label outside 0..K (an invalid
/// argument: the call may fail or panic but must leave the tree observably unchanged), and add_root (the documented
/// exception to reachability: the former tree must stay as it is, the new root is a fresh child-less node).
pub fn edge_calls<const K: usize>(t0: &Tree<u8, K>, probe_len: usize) -> Result<(), (&'static str, String)> {
    let before = canon(t0, probe_len);
    let idxs: Vec<usize> = t0.node_indices().collect();
    for &p in &idxs {
        for (name, call) in [
            ("add_child_node", 0u8),
            ("try_remove_child", 1),
            ("merge_child_with_parent", 2),
        ] {
            let mut t = t0.clone();
            let r = catch(|| match call {
                0 => t.add_child_node(p, K, 7).is_ok(),
                1 => t.try_remove_child(p, K).is_ok(),
                _ => t.merge_child_with_parent(p, K).is_ok(),
            });
            if r == Ok(true) {
                return Err((name, format!("{name}({p}, label {K}) succeeded although the label is outside 0..{K}")));
            }
            if canon(&t, probe_len) != before {
                return Err((name, format!("{name}({p}, label {K}) failed but changed the tree: len {} -> {}", t0.len(), t.len())));
            }
        }
    }
    // clone_from into an empty tree (no root of its own) and into a one-node tree
    for dest in [Tree::<u8, K>::new(), Tree::<u8, K>::with_root(5, 1)] {
        let mut d = dest;
        let r = catch(|| {
            d.clone_from(t0);
            canon(&d, probe_len)
        });
        match r {
            Ok(c) if c == before => {}
            Ok(_) => return Err(("clone_from", "clone_from did not produce the same arena (root, indices, links, values or future indices differ)".into())),
            Err(m) => return Err(("clone_from", format!("clone_from (or reading its result) panicked: {m}"))),
        }
    }
    // add_root on a non-empty tree
    let mut t = t0.clone();
    match catch(|| t.add_root(9)) {
        Err(m) => return Err(("add_root", format!("add_root panicked: {m}"))),
        Ok(r) => {
            if before.nodes.iter().any(|n| n.0 == r) {
                return Err(("add_root", format!("add_root returned the index {r} of a live node")));
            }
            if t.get_root_idx() != r {
                return Err(("add_root", "add_root did not make the new node the root".into()));
            }
            let after: Vec<(usize, u8, Option<usize>, Vec<Option<usize>>, bool)> = t.node_iter().map(|(i, n)| (i, n.value, n.parent, n.children.to_vec(), n.isleaf)).collect();
            let old: Vec<_> = after.iter().filter(|n| n.0 != r).cloned().collect();
            if old != before.nodes {
                return Err(("add_root", format!("add_root changed the former tree: {:?} -> {:?}", before.nodes, old)));
            }
            match after.iter().find(|n| n.0 == r) {
                Some(n) if n.1 == 9 && n.2.is_none() && n.3.iter().all(|c| c.is_none()) && n.4 => {}
                other => return Err(("add_root", format!("the new root is not a fresh child-less leaf: {:?}", other))),
            }
        }
    }
    Ok(())
}

fn opname(a: &Act) -> &'static str {
    match a {
        Act::Add(..) => "add_child_node",
        Act::Remove(..) => "try_remove_child",
        Act::RemoveDesc(..) => "remove_all_descendants",
        Act::Merge(..) => "merge_child_with_parent",
        Act::Update(..) => "update_node",
    }
}

// ---- stateright cross-check ------------------------------------------------------------
mod sr {
    use super::*;
    use stateright::{Checker, Model as SrModel, Property};

    #[derive(Clone)]
    pub struct St<const K: usize> {
        pub tree: crate::report::AssertSync<Tree<u8, K>>,
        pub canon: Canon,
    }
    impl<const K: usize> std::fmt::Debug for St<K> {
        fn fmt(&self, f: &mut std::fmt::Formatter) -> std::fmt::Result {
            write!(f, "{:?}", self.canon)
        }
    }
    impl<const K: usize> PartialEq for St<K> {
        fn eq(&self, o: &Self) -> bool {
            self.canon == o.canon
        }
    }
    impl<const K: usize> std::hash::Hash for St<K> {
        fn hash<H: std::hash::Hasher>(&self, h: &mut H) {
            self.canon.hash(h)
        }
    }
    #[derive(Clone)]
    pub struct M<const K: usize> {
        pub probe_len: usize,
        pub max_len: usize,
    }
    impl<const K: usize> SrModel for M<K> {
        type State = St<K>;
        type Action = Act;
        fn init_states(&self) -> Vec<St<K>> {
            let t: Tree<u8, K> = Tree::with_root(0u8, 1);
            vec![St { canon: canon(&t, self.probe_len), tree: crate::report::AssertSync(t) }]
        }
        fn actions(&self, s: &St<K>, acts: &mut Vec<Act>) {
            acts.extend(actions(&s.tree.0, self.max_len));
        }
        fn next_state(&self, s: &St<K>, a: Act) -> Option<St<K>> {
            let mut t = s.tree.0.clone();
            match apply(&mut t, &a) {
                Err(_) => None,
                Ok(_) => {
                    if invariant(&t).is_err() {
                        return None;
                    }
                    Some(St { canon: canon(&t, self.probe_len), tree: crate::report::AssertSync(t) })
                }
            }
        }
        fn properties(&self) -> Vec<Property<Self>> {
            vec![Property::<Self>::always("never", |_, _| true)]
        }
    }
    pub fn count<const K: usize>(depth: usize, max_len: usize) -> usize {
        let m = M::<K> { probe_len: depth + 3, max_len };
        // stateright counts the initial state as depth 1
        let c = m.checker().threads(1).target_max_depth(depth + 1).spawn_bfs().join();
        c.unique_state_count()
    }
}

fn run_k<const K: usize>(depth: usize, max_len: usize, rep: &mut Report, cross: bool) {
    let mut out = CaseOut::default();
    let ex = bfs::<K>(depth, max_len, &mut out, true);
    out.add("states", ex.states.len() as u64);
    out.add("transitions", ex.transitions);
    out.add("traces_validated_against_impl", ex.transitions);
    if let Some((t, h)) = ex.states.last() {
        out.sample = Some(json!({"K": K, "history": h.iter().map(|x| format!("{:?}", x)).collect::<Vec<_>>(), "reached": format!("{:?}", canon(t, 0).nodes)}));
    }
    rep.set(&format!("states_by_depth_K{K}"), json!(ex.by_depth));
    if cross && out.violations.is_empty() {
        let n = sr::count::<K>(depth, max_len);
        rep.set(&format!("stateright_unique_states_K{K}"), n as u64);
        if n != ex.states.len() {
            eprintln!("MACHINERY: explorers disagree for K={K}: bfs {} vs stateright {}", ex.states.len(), n);
            std::process::exit(4);
        }
    }
    rep.absorb(out);
}

pub fn run(tier: Tier) -> Report {
    let mut rep = Report::new("C12", tier, "model_checking");
    let (d2, d3, ml) = match tier {
        Tier::Quick => (7, 5, 6),
        Tier::Thorough => (9, 7, 6),
    };
    run_k::<2>(d2, ml, &mut rep, true);
    run_k::<3>(d3, ml, &mut rep, true);
    // a larger branching factor at a smaller depth (labels that are not cyclic neighbours exist from K = 4 on)
    let d4 = d3 - 1;
    run_k::<4>(d4, 5, &mut rep, true);
    rep.set("bound", format!("histories of length <= {d2} (K=2) / {d3} (K=3) / {d4} (K=4, len <= 5) from the single-root tree, len <= {ml}, every index argument in 0..=max_index+1, every label, values in {{0,1}}"));
    rep.assume("states are merged only when root, live nodes and the probed free-list order coincide (DESIGN A4)");
    rep.assume("merge_child_with_parent is only called where its documented assert holds (existing index, exactly one child)");
    rep
}
