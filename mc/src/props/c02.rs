//! C02 — composition law: f.compose(g) = g after f, undefinedness included.
use super::common::*;
use crate::gen::{Aff, TSpec, TreeGen};
use crate::regions::Config;
use crate::report::{catch, par_cases, CaseOut, Report, Tier, Violation};
use crate::snap::{conform_face, snap, PipeSide, TreeSide};
use affinitree::pwl::afftree::AffTree;
use serde_json::json;

#[derive(Clone, Debug)]
pub enum Case {
    Compose { k: usize, f: std::sync::Arc<TSpec>, g: std::sync::Arc<TSpec>, layout: u8 },
    Apply { f: std::sync::Arc<TSpec>, a: Aff },
}

fn r1(a: &[f64], b: f64) -> Aff {
    Aff::row1(a, b)
}

fn gens(n: usize, m: usize, o: usize, k: usize, tier: Tier) -> (TreeGen, TreeGen) {
    // predicates in special position on purpose: parallel, coincident, concurrent
    let preds_n: Vec<Aff> = match (n, k) {
        (1, 2) => vec![r1(&[1.0], 0.0), r1(&[-1.0], -1.0), r1(&[2.0], 1.0)],
        (2, 2) => vec![r1(&[1.0, 0.0], 0.0), r1(&[1.0, -1.0], 0.0), r1(&[1.0, 1.0], 1.0)],
        (1, _) => vec![Aff::new(vec![vec![1.0], vec![-1.0]], vec![0.0, -1.0]), r1(&[1.0], 0.5)],
        (_, _) => vec![Aff::new(vec![vec![1.0, 0.0], vec![0.0, 1.0]], vec![0.0, 0.0]), r1(&[1.0, -1.0], 0.0)],
    };
    let terms_nm: Vec<Aff> = match (n, m) {
        (1, 1) => vec![r1(&[1.0], 0.0), r1(&[-1.0], 1.0), r1(&[0.0], 2.0)],
        // the last one has an offset vector whose non-zero entries cancel in the sum
        (1, 2) => vec![Aff::new(vec![vec![1.0], vec![-1.0]], vec![0.0, 1.0]), Aff::new(vec![vec![0.0], vec![2.0]], vec![1.0, 0.0]), Aff::new(vec![vec![1.0], vec![1.0]], vec![1.0, -1.0])],
        (2, 1) => vec![r1(&[1.0, 1.0], 0.0), r1(&[0.0, -1.0], 1.0)],
        _ => vec![
            Aff::identity(2),
            Aff::new(vec![vec![0.0, 1.0], vec![1.0, 0.0]], vec![1.0, 0.0]),
            Aff::new(vec![vec![1.0, 1.0], vec![0.0, 0.0]], vec![0.0, -1.0]),
            // shear: unit diagonal, zero bias, non-zero off-diagonal
            Aff::new(vec![vec![1.0, 2.0], vec![0.0, 1.0]], vec![0.0, 0.0]),
            // pure translation by an offset whose entries cancel in the sum
            Aff::new(vec![vec![1.0, 0.0], vec![0.0, 1.0]], vec![0.5, -0.5]),
            // entries of very different magnitude in one matrix (a grafted row then mixes 1 and 2^-60)
            Aff::new(vec![vec![1.0, 0.0], vec![0.0, 2f64.powi(-60)]], vec![0.0, 0.0]),
        ],
    };
    let preds_m: Vec<Aff> = match (m, k) {
        (1, 2) => vec![r1(&[1.0], 0.0), r1(&[3.0], 1.0), r1(&[-1.0], 0.0)],
        (2, 2) => vec![r1(&[0.0, 1.0], 0.0), r1(&[1.0, 2.0], 1.0), r1(&[-1.0, 0.0], -1.0)],
        (1, _) => vec![Aff::new(vec![vec![1.0], vec![1.0]], vec![0.0, 1.0]), r1(&[-1.0], 0.0)],
        (_, _) => vec![Aff::new(vec![vec![1.0, 0.0], vec![1.0, 1.0]], vec![0.0, 1.0]), r1(&[0.0, 1.0], 0.0)],
    };
    let terms_mo: Vec<Aff> = match (m, o) {
        (1, 1) => vec![r1(&[1.0], 0.0), r1(&[2.0], -1.0), r1(&[0.0], 0.5)],
        (2, 1) => vec![r1(&[1.0, -1.0], 0.0), r1(&[0.0, 0.0], 1.0), r1(&[0.5, 0.0], 2.0)],
        (1, _) => vec![Aff::new(vec![vec![1.0], vec![0.0]], vec![0.0, 1.0]), Aff::new(vec![vec![-1.0], vec![2.0]], vec![0.5, 0.0])],
        _ => vec![Aff::identity(2), Aff::new(vec![vec![0.0, -1.0], vec![2.0, 0.0]], vec![0.0, 1.0]), Aff::new(vec![vec![1.0, 0.0], vec![-1.0, 1.0]], vec![0.0, 0.0])],
    };
    let (fd, fn_, gd, gn) = match (tier, k) {
        (Tier::Quick, 2) => (2, 5, 2, 5),
        (Tier::Quick, _) => (1, 4, 1, 4),
        (Tier::Thorough, 2) => (2, 7, 2, 7),
        (Tier::Thorough, _) => (2, 5, 1, 5),
    };
    (
        TreeGen { k, preds: preds_n, terms: terms_nm, max_depth: fd, max_nodes: fn_, partial: true },
        TreeGen { k, preds: preds_m, terms: terms_mo, max_depth: gd, max_nodes: gn, partial: true },
    )
}

fn thin(v: Vec<TSpec>, keep_every: usize) -> Vec<TSpec> {
    if keep_every <= 1 {
        return v;
    }
    v.into_iter().enumerate().filter(|(i, t)| t.n_nodes() <= 3 || i % keep_every == 0).map(|(_, t)| t).collect()
}

pub fn cases(tier: Tier) -> Vec<Case> {
    let mut out = vec![];
    let dims: Vec<(usize, usize, usize)> = match tier {
        Tier::Quick => vec![(1, 1, 1), (2, 2, 1), (2, 1, 2), (1, 2, 1)],
        Tier::Thorough => vec![(1, 1, 1), (2, 2, 1), (2, 1, 2), (1, 2, 1), (2, 2, 2), (1, 1, 2)],
    };
    for k in [2usize, 4] {
        for (n, m, o) in dims.iter().cloned() {
            let (gf, gg) = gens(n, m, o, k, tier);
            // deterministic thinning keeps the pair count within the tier's budget; all trees with
            // <= 3 nodes are always kept on both sides
            let (ef, eg) = match (tier, k) {
                (Tier::Quick, 2) => (9, 9),
                (Tier::Quick, _) => (5, 5),
                (Tier::Thorough, 2) => (7, 7),
                (Tier::Thorough, _) => (9, 9),
            };
            let fs: Vec<std::sync::Arc<TSpec>> = thin(gf.all(), ef).into_iter().map(std::sync::Arc::new).collect();
            let gs: Vec<std::sync::Arc<TSpec>> = thin(gg.all(), eg).into_iter().map(std::sync::Arc::new).collect();
            for (i, f) in fs.iter().enumerate() {
                for (j, g) in gs.iter().enumerate() {
                    out.push(Case::Compose { k, f: f.clone(), g: g.clone(), layout: ((i + j) % 5) as u8 });
                    // arenas whose root was replaced with add_root (the root is not node 0, a former tree stays behind
                    // unreachable): 100.. the right operand, 200.. both operands
                    // (quick tier: every third pair of trees with <= 3 nodes, alternating between the two kinds;
                    // thorough tier: both kinds for every such pair)
                    if f.n_nodes() <= 3 && g.n_nodes() <= 3 {
                        let (a, b) = match tier {
                            Tier::Thorough => (true, true),
                            Tier::Quick => ((i + j) % 6 == 0, (i + j) % 6 == 3),
                        };
                        if a {
                            out.push(Case::Compose { k, f: f.clone(), g: g.clone(), layout: 100 + ((i + j / 2) % 10) as u8 });
                        }
                        if b {
                            out.push(Case::Compose { k, f: f.clone(), g: g.clone(), layout: 200 + ((i + j / 3) % 4) as u8 });
                        }
                    }
                }
            }
            if k == 2 {
                // maps that are within 2.2e-16 of the identity without being it (m = o only)
                // (scalings by 1 + 2^-52 and 1 - 2^-53: applied to the powers of two of the alphabet they stay exact in
                // f64; a shift by 2^-60 would be rounded away by the f64 arithmetic of any implementation)
                let near_id: Vec<Aff> = if m == o && m == 1 {
                    vec![Aff::row1(&[1.0 + f64::EPSILON], 0.0), Aff::row1(&[1.0 - f64::EPSILON / 2.0], 0.0), Aff::row1(&[1.0], 0.0)]
                } else if m == o {
                    vec![Aff::new(vec![vec![1.0 + f64::EPSILON, 0.0], vec![0.0, 1.0]], vec![0.0, 0.0]), Aff::new(vec![vec![1.0, 0.0], vec![0.0, 1.0 - f64::EPSILON / 2.0]], vec![0.0, 0.0]), Aff::identity(2)]
                } else {
                    vec![]
                };
                for f in fs.iter() {
                    for g in gg.terms.iter().chain(near_id.iter()) {
                        out.push(Case::Apply { f: f.clone(), a: g.clone() });
                    }
                }
            }
        }
    }
    // deeper right operands (decisions at depth 2, up to 7 nodes) below small left operands, in every storage layout:
    // in the re-used-index layout a decision of g is stored before its parent
    for (n, m, o) in [(1usize, 1usize, 1usize), (2, 2, 1)] {
        let (gf, gg) = gens(n, m, o, 2, tier);
        let deep = TreeGen { max_depth: 3, max_nodes: 7, preds: gg.preds[..2].to_vec(), terms: gg.terms[..2].to_vec(), ..gg.clone() };
        let fs: Vec<std::sync::Arc<TSpec>> = gf.all().into_iter().filter(|t| t.n_nodes() <= 3).enumerate().filter(|(i, _)| i % 3 == 0).map(|(_, t)| std::sync::Arc::new(t)).collect();
        let keep = if tier == Tier::Quick { 29 } else { 7 };
        let gs: Vec<std::sync::Arc<TSpec>> = deep.all().into_iter().filter(|t| t.depth() >= 3).enumerate().filter(|(i, _)| i % keep == 0).map(|(_, t)| std::sync::Arc::new(t)).collect();
        for f in fs.iter() {
            for g in gs.iter() {
                for layout in 0..5u8 {
                    out.push(Case::Compose { k: 2, f: f.clone(), g: g.clone(), layout });
                }
            }
        }
    }
    out
}

fn build<const K: usize>(s: &TSpec, layout: u8) -> AffTree<K> {
    s.build_layout::<K>(layout)
}

fn check_compose<const K: usize>(f: &TSpec, g: &TSpec, layout: u8, apply: Option<&Aff>) -> CaseOut {
    let mut out = CaseOut::default();
    // layout < 100: storage layouts of gen::build_layout; 100..199: g re-rooted (variant = parity), f in layout
    // (layout - 100) % 5; 200..: f re-rooted (variant = bit 1) and g re-rooted (variant = bit 0)
    let ft: AffTree<K> = if layout >= 200 { f.build_rerooted::<K>((layout - 200) / 2) } else { build::<K>(f, layout % 100) };
    let gt: AffTree<K> = match apply {
        Some(a) => AffTree::<K>::from_aff(if layout % 2 == 1 { a.to_real_f() } else { a.to_real() }),
        None if layout >= 100 => g.build_rerooted::<K>(layout),
        None => build::<K>(g, layout + 1),
    };
    let sf = snap(&ft);
    let sg = snap(&gt);
    let record = json!({"K": K, "f": f.to_json(), "g": match apply { Some(a) => json!({"apply_func": a.to_json()}), None => g.to_json() }, "layout": layout,
        "f_arena": sf.to_json(), "g_arena": sg.to_json()});
    let mut h = ft.clone();
    let res = catch(|| match apply {
        Some(a) => h.apply_func(&a.to_real()),
        None => h.compose::<false, false>(&gt),
    });
    out.add("real_executions", 1);
    if let Err(msg) = res {
        out.violate(Violation::new(format!("compose panicked: {msg}"), record).tag("kind", "panic"));
        return out;
    }
    let sh = snap(&h);
    if apply.is_none() && f.n_nodes() <= 3 && g.n_nodes() <= 3 {
        // the progress-display variant must build the very same tree (run for all pairs of trees with <= 3 nodes)
        let mut hv = ft.clone();
        out.add("real_executions", 1);
        match catch(|| hv.compose::<false, true>(&gt)) {
            Err(msg) => out.violate(Violation::new(format!("compose::<false, true> panicked where compose::<false, false> did not: {msg}"), record.clone()).tag("kind", "variant")),
            Ok(()) => {
                let sv = snap(&hv);
                if sv != sh {
                    let mut rec = record.clone();
                    rec["h_arena"] = sh.to_json();
                    rec["h_verbose_arena"] = sv.to_json();
                    out.violate(Violation::new(format!("compose::<false, true> and compose::<false, false> leave different trees ({} vs {} nodes)", sv.nodes.len(), sh.nodes.len()), rec).tag("kind", "variant"));
                }
            }
        }
    }
    if apply.is_none() && f.n_nodes() <= 3 && g.n_nodes() <= 3 {
        // the generic entry point with the terminals given as a lazily filtered iterator (size_hint lower bound 0)
        use affinitree::pwl::impl_composition::{FunctionComposition, NoOpVis};
        let mut hg = ft.clone();
        out.add("real_executions", 1);
        let terms: Vec<usize> = hg.tree.terminal_indices().collect();
        match catch(|| AffTree::<K>::generic_composition_inplace(&gt, &mut hg, terms.iter().cloned().filter(|_| true), FunctionComposition {}, NoOpVis {})) {
            Err(msg) => out.violate(Violation::new(format!("generic_composition_inplace with a filtered terminal iterator panicked: {msg}"), record.clone()).tag("kind", "variant")),
            Ok(()) => {
                if snap(&hg) != sh {
                    out.violate(Violation::new("generic_composition_inplace with a filtered terminal iterator and compose::<false, false> leave different trees", record.clone()).tag("kind", "variant"));
                }
            }
        }
    }
    if snap(&gt) != sg {
        out.violate(Violation::new("right operand changed", record.clone()).tag("kind", "rhs_changed"));
    }
    // surviving nodes of f keep index; decisions keep predicate and children
    for (i, nd) in &sf.nodes {
        match sh.nodes.get(i) {
            None => {
                out.violate(Violation::new(format!("node {i} of f vanished"), record.clone()).tag("kind", "index_lost"));
            }
            Some(hn) => {
                if !nd.isleaf && (hn.mat != nd.mat || hn.bias != nd.bias || hn.children != nd.children || hn.parent != nd.parent) {
                    out.violate(Violation::new(format!("decision {i} of f was modified"), record.clone()).tag("kind", "decision_modified"));
                }
                if nd.isleaf && hn.parent != nd.parent {
                    out.violate(Violation::new(format!("terminal {i} of f moved"), record.clone()).tag("kind", "terminal_moved"));
                }
            }
        }
    }
    let n = sf.in_dim;
    let pipe = PipeSide(vec![&sf, &sg]);
    let imp = TreeSide(&sh);
    let mut conf_err: Option<String> = None;
    let mut conf = 0u64;
    let o = refine(n, &imp, &pipe, &Config::default(), &mut out, &mut |face, _, _| {
        for (t, s) in [(&h, &sh), (&ft, &sf)] {
            // trees that hold numbers like 2^-60 next to ordinary ones are not evaluated exactly in f64 (0.5 + 2^-60
            // rounds to 0.5), so the real evaluator is not bound to the snapshot routing there
            if !s.is_small_dyadic() {
                continue;
            }
            let (n, e) = conform_face(t, s, face, true);
            conf += n;
            if let Some(e) = e {
                conf_err = Some(e)
            }
        }
    });
    out.add("traces_validated_against_impl", conf);
    if let Some(e) = conf_err {
        out.violate(Violation::new(format!("real evaluator disagrees with documented routing: {e}"), record.clone()).tag("kind", "conformance"));
    }
    for m in &o.mismatches {
        let mut rec = record.clone();
        rec["mismatch"] = m.to_json();
        rec["h_arena"] = sh.to_json();
        out.violate(Violation::new(format!("h != g.f : {}", mismatch_summary(m)), rec).tag("kind", "function").tag("what", format!("{:?}", std::mem::discriminant(&m.kind))));
    }
    if out.sample.is_none() {
        out.sample = Some(json!({"f": f.to_json(), "g": g.to_json(), "faces": o.stats.faces, "h_nodes": sh.nodes.len()}));
    }
    out
}

pub fn run_case(c: &Case) -> CaseOut {
    match c {
        Case::Compose { k: 2, f, g, layout } => check_compose::<2>(f, g, *layout, None),
        Case::Compose { f, g, layout, .. } => check_compose::<4>(f, g, *layout, None),
        Case::Apply { f, a } => check_compose::<2>(f, f, (f.n_nodes() % 5) as u8, Some(a)),
    }
}

pub fn run(tier: Tier) -> Report {
    let mut rep = Report::new("C02", tier, "model_checking");
    let cs = cases(tier);
    rep.set("programs", cs.len() as u64);
    let total = par_cases(&cs, |_, c| run_case(c));
    rep.absorb(total);
    rep.set("bound", match tier {
        Tier::Quick => "pairs (f,g): K=2 depth<=2 nodes<=5 (all trees with <=3 nodes, every 9th larger one), K=4 depth<=1 nodes<=4; dims (1,1,1),(2,2,1),(2,1,2),(1,2,1); apply_func for every terminal map; every third pair of trees with <=3 nodes also over arenas re-rooted with add_root (right operand / both operands)",
        Tier::Thorough => "pairs (f,g): K=2 depth<=2 nodes<=7 (every 7th larger one), K=4 nodes<=5; six dimension triples; every pair of trees with <=3 nodes also over arenas re-rooted with add_root (right operand, and both operands)",
    });
    rep.assume("operands are read through the public arena API; reading bound to real evaluate/find_terminal by conformance calls");
    rep.assume("exact rational arithmetic; all constants dyadic so the stored f64 tree is the exact tree");
    rep
}
