//! C15 — constraint clean-up keeps exactly the same point set.
use super::c10::{optimal_face_unbounded, systems, Sys};
use super::common::*;
use crate::lp::{maximize, LpResult, Row};
use crate::q::{dot, Q};
use crate::report::{catch, par_cases, CaseOut, Report, Tier, Violation};
use crate::snap::{arr1_to_q, arr2_to_q};
use affinitree::linalg::affine::Polytope;
use serde_json::json;

type Rows = Vec<(Vec<Q>, Q)>;

fn rows_of(p: &Polytope) -> Rows {
    arr2_to_q(&p.mat).into_iter().zip(arr1_to_q(&p.bias).into_iter()).collect()
}

fn lp(rows: &Rows) -> Vec<Row> {
    rows.iter().map(|(a, b)| Row::le(a.clone(), b.clone())).collect()
}

fn is_empty(n: usize, rows: &Rows) -> bool {
    matches!(maximize(n, &lp(rows), &vec![Q::ZERO; n]), LpResult::Infeasible)
}

/// P subset of Q (exact)
fn subset(n: usize, p: &Rows, q: &Rows) -> bool {
    if is_empty(n, p) {
        return true;
    }
    let l = lp(p);
    for (a, b) in q {
        match maximize(n, &l, a) {
            LpResult::Unbounded => return false,
            LpResult::Optimal(_, v) => {
                if v > *b {
                    return false;
                }
            }
            LpResult::Infeasible => return true,
        }
    }
    true
}

fn same_set(n: usize, p: &Rows, q: &Rows) -> bool {
    subset(n, p, q) && subset(n, q, p)
}

/// is `res` a subsequence of `inp` (rows compared exactly)?
fn subsequence(inp: &Rows, res: &Rows) -> bool {
    let mut i = 0;
    for r in res {
        loop {
            if i == inp.len() {
                return false;
            }
            i += 1;
            if inp[i - 1] == *r {
                break;
            }
        }
    }
    true
}

fn is_placeholder(n: usize, res: &Rows) -> Option<&'static str> {
    if res.len() == 1 && res[0].0.iter().all(|v| v.is_zero()) && res[0].0.len() == n {
        if res[0].1 == Q::ONE {
            return Some("unbounded");
        }
        if res[0].1 == Q::int(-1) {
            return Some("empty");
        }
    }
    None
}

pub fn check_system(sys: &Sys, with_subsets: bool) -> CaseOut {
    check_system_opt(sys, with_subsets, true)
}

/// `with_lp`: also run remove_redundant_row_constraints (skipped for badly scaled systems, whose LPs are
/// outside the solver's documented tolerance regime)
pub fn check_system_opt(sys: &Sys, with_subsets: bool, with_lp: bool) -> CaseOut {
    let mut out = CaseOut::default();
    let poly = sys.poly();
    out.add("systems", 1);
    out.add("systems_nontrivial", (sys.rows.len() >= 2) as u64);
    let firsts = check_poly(sys, &poly, "", with_subsets, with_lp, &mut out);
    // sequences of two clean-up calls: every result of the first call (other than normalize, whose rounded rows
    // remove_duplicate_rows merges by design) is itself an input
    for (name, p1) in &firsts {
        out.add("chained_inputs", 1);
        check_poly(sys, p1, &format!("{name} then "), false, with_lp, &mut out);
    }
    out
}

/// all clean-up functions on one polytope, judged against that polytope's own rows; returns the results
fn check_poly(sys: &Sys, poly: &Polytope, prefix: &str, with_subsets: bool, with_lp: bool, out: &mut CaseOut) -> Vec<(&'static str, Polytope)> {
    let n = sys.n;
    let inp = rows_of(poly);
    let mut results: Vec<(&'static str, Polytope)> = vec![];
    let rec = |op: &str, res: Option<&Rows>| json!({"n": n, "rows_A_b": sys.rows, "operation": format!("{prefix}{op}"), "result_rows": res.map(|r| r.iter().map(|(a, b)| json!({"a": crate::q::fmt_vec(a), "b": b.to_string()})).collect::<Vec<_>>())});
    let input_empty = is_empty(n, &inp);
    let mut generic = |out: &mut CaseOut, name: &'static str, res: Result<Polytope, String>, allow_scale: bool| -> Option<Rows> {
        out.add("evaluations", 1);
        let p = match res {
            Err(m) => {
                out.violate(Violation::new(format!("{prefix}{name} panicked: {m}"), rec(name, None)).tag("call", name).tag("kind", "panic"));
                return None;
            }
            Ok(p) => p,
        };
        if !allow_scale {
            results.push((name, p.clone()));
        }
        let r = rows_of(&p);
        if r.iter().any(|(a, _)| a.len() != n) {
            out.violate(Violation::new(format!("{prefix}{name} changed the dimension"), rec(name, Some(&r))).tag("call", name).tag("kind", "dimension"));
            return None;
        }
        // (1) only drops rows
        let ph = is_placeholder(n, &r);
        let sub_ok = if allow_scale {
            r.len() == inp.len()
                && r.iter().zip(inp.iter()).all(|((a, b), (ia, ib))| {
                    // positive multiple
                    let mut ratio: Option<Q> = None;
                    let mut ok = true;
                    for (x, y) in a.iter().chain(std::iter::once(b)).zip(ia.iter().chain(std::iter::once(ib))) {
                        if y.is_zero() {
                            if !x.is_zero() {
                                ok = false;
                            }
                        } else {
                            let q = x / y;
                            // normalisation divides in f64: allow relative 1e-12
                            match &ratio {
                                None => ratio = Some(q),
                                Some(r0) => {
                                    if (&q - r0).abs() > r0.abs() * Q::from_f64(1e-12) {
                                        ok = false;
                                    }
                                }
                            }
                        }
                    }
                    ok && ratio.map(|r| r.is_pos()).unwrap_or(true)
                })
        } else {
            subsequence(&inp, &r)
        };
        let ph_ok = match ph {
            Some("unbounded") => !allow_scale && (sub_ok || true),
            Some("empty") => !allow_scale,
            _ => false,
        };
        if !sub_ok && !ph_ok {
            out.violate(Violation::new(format!("{prefix}{name}: result is not a subsequence of the input rows"), rec(name, Some(&r))).tag("call", name).tag("kind", "not_subsequence"));
        }
        // (2) same point set
        let same = if allow_scale {
            // scaled rows: compare row by row through exact LP
            same_set(n, &inp, &r)
        } else {
            match ph {
                Some("empty") if !sub_ok => input_empty,
                _ => same_set(n, &inp, &r),
            }
        };
        if !same {
            let dir = if subset(n, &inp, &r) { "grew" } else if subset(n, &r, &inp) { "shrank" } else { "incomparable" };
            out.violate(Violation::new(format!("{prefix}{name}: the point set {dir}"), rec(name, Some(&r))).tag("call", name).tag("kind", "set_changed").tag("how", dir));
        }
        Some(r)
    };
    generic(out, "remove_tautologies", catch(|| poly.remove_tautologies()), false);
    generic(out, "remove_duplicate_rows", catch(|| poly.remove_duplicate_rows()), false);
    generic(out, "remove_zero_rows", catch(|| poly.remove_zero_rows()), false);
    generic(out, "normalize", catch(|| poly.clone().normalize()), true);
    // normalize: rows with non-negligible norm have unit norm afterwards (f64 tolerance)
    if let Ok(pn) = catch(|| poly.clone().normalize()) {
        for (i, r) in pn.mat.outer_iter().enumerate() {
            let orig: f64 = poly.mat.row(i).iter().map(|x| x * x).sum::<f64>().sqrt();
            let nn: f64 = r.iter().map(|x| x * x).sum::<f64>().sqrt();
            if orig > 1e-9 && (nn - 1.0).abs() > 1e-12 {
                out.violate(Violation::new(format!("normalize: row {i} has norm {nn}"), rec("normalize", None)).tag("call", "normalize").tag("kind", "not_unit"));
            }
        }
    }
    let rr = if with_lp { catch(|| poly.remove_redundant_row_constraints()) } else { Err("returned Err(skipped)".into()) };
    let rr = match rr {
        Ok(Ok(p)) => Ok(p),
        Ok(Err(e)) => {
            // a solver error is reported, not a wrong answer; but it must not happen for fat sets
            out.add("redundancy_solver_errors", 1);
            Err(format!("returned Err({e})"))
        }
        Err(m) => Err(m),
    };
    if let Ok(_) = &rr {
        if let Some(r) = generic(out, "remove_redundant_row_constraints", rr.clone().map_err(|e| e), false) {
            if is_placeholder(n, &r).is_none() || r.len() > 1 {
                // (3) no remaining row implied by the others with a margin
                for i in 0..r.len() {
                    let others: Rows = r.iter().enumerate().filter(|(j, _)| *j != i).map(|(_, x)| x.clone()).collect();
                    if r[i].0.iter().all(|v| v.is_zero()) {
                        // a row 0 <= b with b >= margin is implied by anything, even by no row at all
                        if r[i].1 >= delta() {
                            out.violate(
                                Violation::new(format!("{prefix}remove_redundant_row_constraints kept the tautology 0 <= {}", r[i].1), rec("remove_redundant_row_constraints", Some(&r)))
                                    .tag("call", "remove_redundant_row_constraints").tag("kind", "redundant_row_kept").tag("cause", "tautology"),
                            );
                            break;
                        }
                        continue;
                    }
                    if let LpResult::Optimal(_, v) = maximize(n, &lp(&others), &r[i].0) {
                        if v <= &r[i].1 - &delta() {
                            // classify: which LP did the algorithm face for this row?
                            let pos = inp.iter().position(|x| *x == r[i]).unwrap_or(0);
                            let mut alg: Rows = inp[..pos].to_vec();
                            // rows after pos that survived
                            for x in inp[pos + 1..].iter() {
                                if r.contains(x) {
                                    alg.push(x.clone());
                                }
                            }
                            let neg: Vec<Q> = r[i].0.iter().map(|v| -v).collect();
                            let cause = match maximize(n, &lp(&alg), &r[i].0) {
                                LpResult::Optimal(..) if optimal_face_unbounded(n, &alg, &neg) => "lp_unbounded_optimal_face",
                                LpResult::Optimal(..) => "other",
                                LpResult::Unbounded => "other_unbounded",
                                LpResult::Infeasible => "other_infeasible",
                            };
                            out.violate(
                                Violation::new(format!("remove_redundant_row_constraints kept row {:?} <= {} although the remaining rows imply it with margin (max = {})", crate::q::fmt_vec(&r[i].0), r[i].1, v), rec("remove_redundant_row_constraints", Some(&r)))
                                    .tag("call", "remove_redundant_row_constraints").tag("kind", "redundant_row_kept").tag("cause", cause),
                            );
                            break;
                        }
                    }
                }
            }
        }
    } else if let Err(m) = &rr {
        if !m.starts_with("returned Err") {
            out.violate(Violation::new(format!("remove_redundant_row_constraints panicked: {m}"), rec("remove_redundant_row_constraints", None)).tag("call", "remove_redundant_row_constraints").tag("kind", "panic"));
        }
    }
    // remove_rows for every ascending index set
    if with_subsets {
        let m = inp.len();
        for mask in 0..(1u32 << m) {
            let idx: Vec<usize> = (0..m).filter(|i| mask & (1 << i) != 0).collect();
            out.add("evaluations", 1);
            // Vec for even masks, lazily filtered iterator (size_hint lower bound 0) for odd ones
            let res = if mask % 2 == 0 { catch(|| poly.remove_rows(idx.clone())) } else { catch(|| poly.remove_rows((0..m).filter(|i| mask & (1 << i) != 0))) };
            match res {
                Err(e) => out.violate(Violation::new(format!("remove_rows({:?}) panicked: {e}", idx), rec("remove_rows", None)).tag("call", "remove_rows").tag("kind", "panic")),
                Ok(p) => {
                    let r = rows_of(&p);
                    let exp: Rows = inp.iter().enumerate().filter(|(i, _)| !idx.contains(i)).map(|(_, x)| x.clone()).collect();
                    if r != exp {
                        out.violate(Violation::new(format!("remove_rows({:?}) returned other rows than those not named", idx), rec("remove_rows", Some(&r))).tag("call", "remove_rows").tag("kind", "wrong_rows"));
                    }
                }
            }
        }
    }
    let _ = dot;
    drop(generic);
    if with_subsets && !inp.is_empty() {
        // the polytope without any row (the whole space) as produced by remove_rows
        if let Ok(p) = catch(|| poly.remove_rows((0..inp.len()).collect::<Vec<_>>())) {
            results.push(("remove_rows(all)", p));
        }
    }
    results
}

pub fn grid(tier: Tier) -> Vec<Sys> {
    let mut v = vec![];
    match tier {
        Tier::Quick => {
            for m in 1..=3 {
                v.extend(systems(1, m, &[0.0, 1.0, -1.0, 2.0, -2.0], &[-2.0, -1.0, 0.0, 1.0, 2.0]));
            }
            for m in 1..=2 {
                v.extend(systems(2, m, &[0.0, 1.0, -1.0, 2.0, -2.0], &[-1.0, 0.0, 1.0, 2.0]));
            }
            v.extend(systems(2, 3, &[0.0, 1.0, -1.0, 2.0], &[-1.0, 0.0, 1.0]));
            for (i, s) in systems(3, 2, &[0.0, 1.0, -1.0], &[-1.0, 0.0, 1.0]).into_iter().enumerate() {
                if i % 2 == 0 {
                    v.push(s);
                }
            }
        }
        Tier::Thorough => {
            for m in 1..=4 {
                v.extend(systems(1, m, &[0.0, 1.0, -1.0, 2.0, -2.0], &[-2.0, -1.0, 0.0, 1.0, 2.0]));
            }
            for m in 1..=2 {
                v.extend(systems(2, m, &[0.0, 1.0, -1.0, 2.0, -2.0], &[-2.0, -1.0, 0.0, 1.0, 2.0]));
            }
            v.extend(systems(2, 3, &[0.0, 1.0, -1.0, 2.0], &[-1.0, 0.0, 1.0]));
            for (i, s) in systems(2, 4, &[0.0, 1.0, -1.0], &[0.0, 1.0]).into_iter().enumerate() {
                if i % 3 == 0 {
                    v.push(s);
                }
            }
            for (i, s) in systems(3, 3, &[0.0, 1.0, -1.0], &[0.0, 1.0]).into_iter().enumerate() {
                if i % 5 == 0 {
                    v.push(s);
                }
            }
        }
    }
    v
}

/// The single-precision instantiation of the same generic clean-up code on short rows (norm between f64::EPSILON and
/// f32::EPSILON) and ordinary ones: same point set, only rows dropped.
fn check_f32() -> CaseOut {
    use affinitree::linalg::affine::{AffFuncBase, PolytopeT};
    type P32 = AffFuncBase<PolytopeT, ndarray::OwnedRepr<f32>>;
    let mut out = CaseOut::default();
    let to_rows = |p: &P32| -> Rows { p.mat.outer_iter().zip(p.bias.iter()).map(|(r, b)| (r.iter().map(|x| Q::from_f64(*x as f64)).collect(), Q::from_f64(*b as f64))).collect() };
    let mut systems: Vec<Vec<(Vec<f32>, f32)>> = vec![];
    for s in [1.0f32, 1e-8, 3e-10, 1e-5] {
        systems.push(vec![(vec![s, 0.0], s), (vec![0.0, s], s)]);
        systems.push(vec![(vec![s, 0.0], -s), (vec![-s, 0.0], -s)]);
        systems.push(vec![(vec![s, 0.0], s), (vec![s, s / 2.0], s)]);
        systems.push(vec![(vec![s, 0.0], s), (vec![2.0 * s, 0.0], 2.0 * s), (vec![0.0, -s], 0.0)]);
        systems.push(vec![(vec![s, s], s), (vec![s, s], 2.0 * s)]);
    }
    for rows in systems {
        out.add("systems", 1);
        out.add("systems_nontrivial", 1);
        let n = 2;
        let mut m = ndarray::Array2::<f32>::zeros((rows.len(), n));
        let mut b = ndarray::Array1::<f32>::zeros(rows.len());
        for (i, (a, bb)) in rows.iter().enumerate() {
            for j in 0..n {
                m[[i, j]] = a[j];
            }
            b[i] = *bb;
        }
        let p = P32::from_mats(m, b);
        let inp = to_rows(&p);
        let rec = |op: &str| json!({"element_type": "f32", "rows_A_b": rows.iter().map(|(a, b)| (a.clone(), *b)).collect::<Vec<_>>(), "operation": op});
        for (name, res) in [("remove_duplicate_rows", catch(|| p.remove_duplicate_rows())), ("remove_tautologies", catch(|| p.remove_tautologies())), ("remove_zero_rows", catch(|| p.remove_zero_rows()))] {
            out.add("evaluations", 1);
            match res {
                Err(m) => out.violate(Violation::new(format!("f32 {name} panicked: {m}"), rec(name)).tag("call", name).tag("kind", "panic").tag("element", "f32")),
                Ok(r) => {
                    let rr = to_rows(&r);
                    if !(subsequence(&inp, &rr) || is_placeholder(n, &rr).is_some()) {
                        out.violate(Violation::new(format!("f32 {name}: result is not a subsequence of the input rows"), rec(name)).tag("call", name).tag("kind", "not_subsequence").tag("element", "f32"));
                    }
                    if !same_set(n, &inp, &rr) {
                        out.violate(Violation::new(format!("f32 {name}: the point set changed"), rec(name)).tag("call", name).tag("kind", "set_changed").tag("element", "f32"));
                    }
                }
            }
        }
    }
    out
}

pub fn run(tier: Tier) -> Report {
    let mut rep = Report::new("C15", tier, "exploration");
    let g = grid(tier);
    let total = par_cases(&g, |i, s| {
        let mut o = check_system(s, s.rows.len() <= 4);
        // every 3rd system with a matrix of at least 2x2 once more with column-major storage
        if s.n >= 2 && s.rows.len() >= 2 && i % 3 == 0 {
            super::c10::FORTRAN.with(|f| f.set(true));
            let mut o2 = check_system(s, false);
            super::c10::FORTRAN.with(|f| f.set(false));
            for v in o2.violations.iter_mut() {
                v.tags.insert("storage".into(), "column_major".into());
            }
            o2.vcount = o2.vcount.into_iter().map(|(k, c)| (format!("{k}+cm"), c)).collect();
            o.add("systems_column_major", 1);
            o.merge(o2);
        }
        o
    });
    // rows whose coefficients are tiny but not zero (they are constraints, not tautologies)
    let tiny = 2f64.powi(-60);
    let mut gt = vec![];
    for m in 1..=2 {
        gt.extend(systems(1, m, &[0.0, 1.0, tiny, -tiny], &[-1.0, 0.0, 1.0]));
    }
    gt.extend(systems(2, 1, &[0.0, 1.0, tiny, -tiny], &[-1.0, 0.0, 1.0]));
    for (i, s) in systems(2, 2, &[0.0, 1.0, tiny, -tiny], &[-1.0, 1.0]).into_iter().enumerate() {
        if i % 2 == 0 {
            gt.push(s);
        }
    }
    // a row is either tiny as a whole or of ordinary size: mixing 1 and 2^-60 in one row produces rows that
    // differ from an ordinary row only at the level of f64 rounding, which remove_duplicate_rows merges by design
    // zero rows with bias -0.0 (a tautology) next to ordinary rows
    for a in [1.0, -1.0, 0.0] {
        for b in [-1.0, 0.0, 1.0] {
            for (zr, zb) in [(0.0, -0.0), (tiny, -0.0), (0.0, 0.0)] {
                gt.push(Sys { n: 1, rows: vec![(vec![a], b), (vec![zr], zb)] });
                gt.push(Sys { n: 1, rows: vec![(vec![zr], zb), (vec![a], b)] });
                gt.push(Sys { n: 2, rows: vec![(vec![a, 1.0], b), (vec![zr, 0.0], zb), (vec![-1.0, a], 1.0)] });
            }
        }
    }
    let gt: Vec<Sys> = gt
        .into_iter()
        .filter(|s| s.rows.iter().any(|(a, b)| a.iter().any(|v| v.abs() == tiny) || (*b == 0.0 && b.is_sign_negative())))
        .filter(|s| s.rows.iter().all(|(a, _)| !(a.iter().any(|v| v.abs() == tiny) && a.iter().any(|v| v.abs() == 1.0))))
        .collect();
    let mut gt = gt;
    // rows that are tiny as a whole, bias included: tiny*x <= +-tiny is x <= +-1, 0 <= -tiny is infeasible
    for m in 1..=2 {
        gt.extend(systems(1, m, &[0.0, tiny, -tiny], &[-tiny, 0.0, tiny]));
    }
    for (i, s) in systems(2, 2, &[0.0, tiny, -tiny], &[-tiny, tiny]).into_iter().enumerate() {
        if i % 2 == 0 {
            gt.push(s);
        }
    }
    rep.set("systems_with_tiny_coefficients", gt.len() as u64);
    let t2 = par_cases(&gt, |_, s| check_system_opt(s, true, false));
    rep.absorb(t2);
    // nearly coincident parallel rows (gap 2^-21, far above the 1e-8 containment tolerance): neither implies the
    // other "by a margin", but the looser one is implied exactly and the tighter one is not
    let gap = 2f64.powi(-21);
    let mut gn = vec![];
    for (a, b) in [(vec![1.0], 1.0), (vec![-1.0], 0.0), (vec![2.0], -1.0)] {
        gn.push(Sys { n: 1, rows: vec![(a.clone(), b + gap), (a.clone(), b)] });
        gn.push(Sys { n: 1, rows: vec![(a.clone(), b), (a.clone(), b + gap)] });
        gn.push(Sys { n: 1, rows: vec![(a.clone(), b + gap), (a.iter().map(|x| -x).collect(), 3.0), (a.clone(), b)] });
    }
    for (a, b) in [(vec![1.0, 0.0], 1.0), (vec![1.0, 1.0], 1.0), (vec![0.0, -1.0], 0.0)] {
        for other in [(vec![0.0, 1.0], 1.0), (vec![-1.0, -1.0], 2.0)] {
            gn.push(Sys { n: 2, rows: vec![(a.clone(), b + gap), other.clone(), (a.clone(), b)] });
            gn.push(Sys { n: 2, rows: vec![(a.clone(), b), other.clone(), (a.clone(), b + gap)] });
            gn.push(Sys { n: 2, rows: vec![other.clone(), (a.clone(), b + gap), (a.clone(), b), (vec![-1.0, 0.0], 2.0), (vec![0.0, -1.0], 2.0), (vec![1.0, 1.0], 5.0)] });
        }
    }
    rep.set("systems_with_nearly_coincident_rows", gn.len() as u64);
    // systems without any row (the whole space)
    for n in 1..=3 {
        gn.push(Sys { n, rows: vec![] });
    }
    // necessary rows with biases of 2^53 and more (b + 1 == b in f64 there)
    for big in [9007199254740992.0f64, 1e16, 2f64.powi(60)] {
        gn.push(Sys { n: 1, rows: vec![(vec![1.0], big)] });
        gn.push(Sys { n: 1, rows: vec![(vec![-1.0], -big)] });
        gn.push(Sys { n: 1, rows: vec![(vec![-1.0], 0.0), (vec![1.0], big)] });
        gn.push(Sys { n: 2, rows: vec![(vec![-1.0, 0.0], 0.0), (vec![1.0, 0.0], big), (vec![0.0, -1.0], 0.0), (vec![0.0, 1.0], 1.0)] });
    }
    // systems that consist of tautologies only
    gn.push(Sys { n: 1, rows: vec![(vec![0.0], 5.0), (vec![0.0], 2.0), (vec![0.0], 0.0)] });
    gn.push(Sys { n: 2, rows: vec![(vec![0.0, 0.0], 1.0)] });
    gn.push(Sys { n: 2, rows: vec![(vec![0.0, 0.0], 1.0), (vec![0.0, 0.0], 3.0)] });
    // rows just above the "negligible" threshold (entries 2^-51 and 2^-52 next to f64::EPSILON = 2^-52): they are
    // ordinary constraints, scaled; and rows whose directions are 2^-27 rad apart (x <= 1 against x + 2^-27 y <= 1)
    let (t51, t52, a27) = (2f64.powi(-51), 2f64.powi(-52), 2f64.powi(-27));
    let mut ge: Vec<Sys> = systems(2, 2, &[0.0, t51, -t51, t52], &[-t51, t51]).into_iter().filter(|s| s.rows.iter().any(|(a, _)| a.iter().any(|v| *v == t52) && a.iter().any(|v| v.abs() == t51))).collect();
    ge.extend(systems(1, 2, &[t51, -t51, 2.0 * t51], &[-t51, t51, 2.0 * t51]));
    ge.extend(systems(2, 2, &[0.0, 1.0, -1.0, a27], &[-1.0, 1.0]).into_iter().filter(|s| s.rows.iter().any(|(a, _)| a.iter().any(|v| *v == a27) && a.iter().any(|v| v.abs() == 1.0))));
    rep.absorb(check_f32());
    rep.set("systems_near_epsilon", ge.len() as u64);
    let t4 = par_cases(&ge, |_, s| check_system_opt(s, true, false));
    rep.absorb(t4);
    let t3 = par_cases(&gn, |_, s| check_system_opt(s, true, true));
    rep.absorb(t3);
    rep.set("systems_total", g.len() as u64);
    if let Some(s) = g.get(g.len() / 3) {
        rep.samples.push(json!({"n": s.n, "rows_A_b": s.rows}));
    }
    rep.absorb(total);
    let nt = rep.coverage.get("systems_nontrivial").and_then(|v| v.as_u64()).unwrap_or(0);
    rep.set("distinct_nontrivial", nt);
    rep.set("rule", "every ordered list of m rows over the coefficient and bias alphabets (contains duplicated, positively and negatively scaled, parallel, zero, equality-pair rows, empty and unbounded sets by construction); one evaluation per clean-up function and per index set of remove_rows; non-trivial = at least two rows; distinct because the enumeration never repeats a row list");
    rep.set("bound", match tier {
        Tier::Quick => "n=1: m<=3 over {0,+-1,+-2} x {-2..2}; n=2: m<=2 over {0,+-1,+-2} x {-1,0,1,2}, m=3 over {0,+-1,2} x {-1,0,1}; n=3: every 2nd system with m=2",
        Tier::Thorough => "n=1: m<=4; n=2: m<=3, every 3rd with m=4; n=3: every 5th with m=3",
    });
    rep.assume("set equality decided by exact mutual inclusion (one exact LP per row); 'implied by a margin' = exact maximum of the row over the others <= bias - 1e-6");
    rep
}
