//! C14 — polytope constructors and transformations are set-exact.
use super::c10::{systems, Sys};
use super::common::*;
use crate::lp::{maximize, LpResult, Row};
use crate::q::{dot, Q};
use crate::report::{catch, par_cases, CaseOut, Report, Tier, Violation};
use crate::snap::{arr1_to_q, arr2_to_q};
use affinitree::linalg::affine::{AffFunc, Polytope};
use ndarray::{Array1, Array2};
use serde_json::json;

type Rows = Vec<(Vec<Q>, Q)>;

fn rows_of(p: &Polytope) -> Rows {
    arr2_to_q(&p.mat).into_iter().zip(arr1_to_q(&p.bias).into_iter()).collect()
}
fn lp(rows: &Rows) -> Vec<Row> {
    rows.iter().map(|(a, b)| Row::le(a.clone(), b.clone())).collect()
}
fn is_empty(n: usize, rows: &Rows) -> bool {
    matches!(maximize(n, &lp(rows), &vec![Q::ZERO; n]), LpResult::Infeasible)
}
fn subset(n: usize, p: &Rows, q: &Rows) -> bool {
    if is_empty(n, p) {
        return true;
    }
    let l = lp(p);
    for (a, b) in q {
        match maximize(n, &l, a) {
            LpResult::Unbounded => return false,
            LpResult::Optimal(_, v) => {
                if v > *b {
                    return false;
                }
            }
            LpResult::Infeasible => return true,
        }
    }
    true
}
pub fn same_set(n: usize, p: &Rows, q: &Rows) -> bool {
    subset(n, p, q) && subset(n, q, p)
}

fn qm(m: &[Vec<f64>]) -> Vec<Vec<Q>> {
    m.iter().map(|r| r.iter().map(|x| Q::from_f64(*x)).collect()).collect()
}
fn arr2(m: &[Vec<f64>]) -> Array2<f64> {
    let r = m.len();
    let c = m[0].len();
    use ndarray::ShapeBuilder;
    // column-major storage when the case asks for it (see run)
    let mut a = if super::c10::FORTRAN.with(|f| f.get()) { Array2::<f64>::zeros((r, c).f()) } else { Array2::<f64>::zeros((r, c)) };
    for i in 0..r {
        for j in 0..c {
            a[[i, j]] = m[i][j];
        }
    }
    a
}
fn matvec(m: &[Vec<Q>], v: &[Q]) -> Vec<Q> {
    m.iter().map(|r| dot(r, v)).collect()
}
fn vecmat(v: &[Q], m: &[Vec<Q>]) -> Vec<Q> {
    let c = m[0].len();
    (0..c).map(|j| { let mut s = Q::ZERO; for i in 0..v.len() { s = s + &v[i] * &m[i][j]; } s }).collect()
}
/// exact inverse (Gauss-Jordan); None if singular
fn inverse(m: &[Vec<Q>]) -> Option<Vec<Vec<Q>>> {
    let n = m.len();
    let mut a: Vec<Vec<Q>> = m.iter().enumerate().map(|(i, r)| { let mut v = r.clone(); for j in 0..n { v.push(if i == j { Q::ONE } else { Q::ZERO }); } v }).collect();
    for c in 0..n {
        let p = (c..n).find(|r| !a[*r][c].is_zero())?;
        a.swap(c, p);
        let inv = a[c][c].recip();
        for j in 0..2 * n {
            a[c][j] = &a[c][j] * &inv;
        }
        for r in 0..n {
            if r != c && !a[r][c].is_zero() {
                let f = a[r][c].clone();
                for j in 0..2 * n {
                    let t = &f * &a[c][j];
                    a[r][j] = &a[r][j] - &t;
                }
            }
        }
    }
    Some(a.into_iter().map(|r| r[n..].to_vec()).collect())
}

fn lattice(n: usize, vals: &[f64]) -> Vec<Vec<f64>> {
    let mut out = vec![];
    let mut idx = vec![0usize; n];
    loop {
        out.push(idx.iter().map(|i| vals[*i]).collect());
        let mut k = 0;
        loop {
            if k == n { break; }
            idx[k] += 1;
            if idx[k] < vals.len() { break; }
            idx[k] = 0;
            k += 1;
        }
        if k == n { break; }
    }
    out
}

const TAU: f64 = 1e-8;

#[derive(Clone, Debug)]
pub enum Case {
    Transform(Sys),
    Constructors(usize),
}

fn v(out: &mut CaseOut, call: &str, kind: &str, msg: String, rec: serde_json::Value) {
    out.violate(Violation::new(msg, rec).tag("call", call).tag("kind", kind));
}

fn check_transform(sys: &Sys, tier: Tier) -> CaseOut {
    let mut out = CaseOut::default();
    let n = sys.n;
    let p = sys.poly();
    let rq = sys.rows_q();
    let rec = |op: &str, arg: serde_json::Value| json!({"n": n, "rows_A_b": sys.rows, "operation": op, "argument": arg});
    out.add("systems", 1);
    out.add("systems_nontrivial", sys.rows.iter().any(|(a, _)| a.iter().any(|x| *x != 0.0)) as u64);
    // contains / distance on a lattice incl. boundary points
    let lat = lattice(n, &[-2.0, -1.0, -0.5, 0.0, 0.5, 1.0, 2.0]);
    for x in &lat {
        out.add("evaluations", 1);
        let xq: Vec<Q> = x.iter().map(|t| Q::from_f64(*t)).collect();
        let xa = Array1::from(x.clone());
        let exact_in = rq.iter().all(|(a, b)| &dot(a, &xq) <= b);
        let tol_in = rq.iter().all(|(a, b)| &dot(a, &xq) - b <= Q::from_f64(TAU));
        match catch(|| (p.contains(&xa), p.distance(&xa), p.distance_raw(&xa))) {
            Err(m) => v(&mut out, "contains", "panic", format!("contains/distance panicked: {m}"), rec("contains", json!(x))),
            Ok((c, d, draw)) => {
                if c != tol_in || (exact_in && !c) {
                    v(&mut out, "contains", "membership", format!("contains({:?}) = {c}, exact membership {exact_in}", x), rec("contains", json!(x)));
                }
                for (i, (a, b)) in rq.iter().enumerate() {
                    let slack = b - &dot(a, &xq);
                    if (draw[i] - slack.to_f64()).abs() > 1e-12 {
                        v(&mut out, "distance_raw", "value", format!("distance_raw row {i} = {} expected {}", draw[i], slack.to_f64()), rec("distance_raw", json!(x)));
                    }
                    let norm = dot(a, a).to_f64().sqrt();
                    if norm > 0.0 {
                        let exp = slack.to_f64() / norm;
                        if !((d[i] - exp).abs() <= 1e-12 * (1.0 + exp.abs())) {
                            v(&mut out, "distance", "value", format!("distance row {i} = {} expected {}", d[i], exp), rec("distance", json!(x)));
                        }
                    } else {
                        // zero row: includes all points (b >= 0) -> +inf; includes none (b < 0) -> negative
                        let ok = if slack.sign() >= 0 { d[i] == f64::INFINITY } else { d[i] < 0.0 };
                        if !ok {
                            v(&mut out, "distance", "zero_row", format!("distance for the zero row 0 <= {} is {}", b, d[i]), rec("distance", json!(x)));
                        }
                    }
                }
            }
        }
    }
    // points with huge coordinates (multiples of 2^53) that may cancel in a row: every product and the sum of the
    // products are exact in f64 for the coefficient alphabet, and a non-zero sum decides the sign on its own
    if n >= 2 {
        let big = 9007199254740992.0f64; // 2^53
        for s0 in [1.0, -1.0] {
            for s1 in [1.0, -1.0] {
                let mut x = vec![0.0; n];
                x[0] = s0 * big;
                x[1] = s1 * big;
                out.add("evaluations", 1);
                let xq: Vec<Q> = x.iter().map(|t| Q::from_f64(*t)).collect();
                let tol_in = rq.iter().all(|(a, b)| &dot(a, &xq) - b <= Q::from_f64(TAU));
                match catch(|| p.contains(&Array1::from(x.clone()))) {
                    Err(m) => v(&mut out, "contains", "panic", format!("contains panicked: {m}"), rec("contains", json!(x))),
                    Ok(c) if c != tol_in => v(&mut out, "contains", "membership", format!("contains({:?}) = {c}, exact membership {tol_in}", x), rec("contains", json!(x))),
                    _ => {}
                }
            }
        }
    }
    // views of the polytope as operands: a single row intersected with the whole (both share one buffer)
    if sys.rows.len() >= 2 {
        for i in 0..sys.rows.len() {
            out.add("evaluations", 2);
            match catch(|| (p.row(i).intersection(&p.view()), p.view().intersection(&p.row(i)))) {
                Err(m) => v(&mut out, "intersection", "panic", format!("intersection of views panicked: {m}"), rec("intersection", json!({"row_view": i}))),
                Ok((a, b)) => {
                    if !same_set(n, &rows_of(&a), &rq) || !same_set(n, &rows_of(&b), &rq) {
                        v(&mut out, "intersection", "views", format!("row({i}) intersected with the whole polytope (as views) is not the polytope"), rec("intersection", json!({"row_view": i})));
                    }
                }
            }
        }
    }
    // points with NaN or infinite coordinates. Only the unambiguous verdict is demanded: such a point is not contained
    // when some row is violated whatever the ambiguous terms are taken to be, i.e. a row reads NaN (a NaN coordinate
    // with a non-zero coefficient, or +inf - inf) or +inf, or its finite part alone already exceeds the bias while no
    // coordinate with a non-zero coefficient is infinite.
    let specials = [f64::NAN, f64::INFINITY, f64::NEG_INFINITY];
    let mut weird: Vec<Vec<f64>> = vec![];
    for pos in 0..n {
        for sp in specials {
            for other in [0.0, 5.0, -5.0] {
                let mut x = vec![other; n];
                x[pos] = sp;
                weird.push(x);
            }
        }
    }
    if n >= 2 {
        weird.push(vec![f64::INFINITY; n]);
        weird.push((0..n).map(|i| if i % 2 == 0 { f64::INFINITY } else { f64::NEG_INFINITY }).collect());
    }
    for x in &weird {
        out.add("evaluations", 1);
        let mut must_be_outside = false;
        for (a, b) in &sys.rows {
            let mut s = 0.0f64;
            for (aj, xj) in a.iter().zip(x.iter()) {
                if *aj != 0.0 {
                    s += aj * xj;
                }
            }
            if s.is_nan() || s == f64::INFINITY || (s.is_finite() && s > *b + 1.0) {
                must_be_outside = true;
            }
        }
        if !must_be_outside {
            continue;
        }
        match catch(|| p.contains(&Array1::from(x.clone()))) {
            Err(m) => v(&mut out, "contains", "panic", format!("contains panicked: {m}"), rec("contains", json!(format!("{:?}", x)))),
            Ok(true) => v(&mut out, "contains", "nonfinite_point", format!("contains({:?}) = true although a row is violated or undefined there", x), rec("contains", json!(format!("{:?}", x)))),
            Ok(false) => {}
        }
    }
    // translate
    let dirs = lattice(n, &[-1.0, 0.0, 0.5, 2.0]);
    for d in &dirs {
        out.add("evaluations", 1);
        let dq: Vec<Q> = d.iter().map(|t| Q::from_f64(*t)).collect();
        match catch(|| p.translate(&Array1::from(d.clone()))) {
            Err(m) => v(&mut out, "translate", "panic", format!("translate panicked: {m}"), rec("translate", json!(d))),
            Ok(r) => {
                let exp: Rows = rq.iter().map(|(a, b)| (a.clone(), b + &dot(a, &dq))).collect();
                if !same_set(n, &rows_of(&r), &exp) {
                    v(&mut out, "translate", "set", format!("translate({:?}): x in result is not equivalent to x-d in P", d), rec("translate", json!(d)));
                }
            }
        }
    }
    // intersection with a second polytope (a rotated copy of the rows) and intersection_n
    let others: Vec<Vec<(Vec<f64>, f64)>> = vec![
        vec![(vec![1.0; n], 1.0)],
        vec![((0..n).map(|i| if i == 0 { -1.0 } else { 0.0 }).collect(), 0.0), ((0..n).map(|i| if i == n - 1 { 1.0 } else { 0.0 }).collect(), 2.0)],
        vec![(vec![0.0; n], -1.0)],
    ];
    for o in &others {
        out.add("evaluations", 2);
        let os = Sys { n, rows: o.clone() };
        let op = os.poly();
        let mut exp = rq.clone();
        exp.extend(os.rows_q());
        match catch(|| (p.intersection(&op), Polytope::intersection_n(n, &[p.clone(), op.clone(), p.clone()]))) {
            Err(m) => v(&mut out, "intersection", "panic", format!("intersection panicked: {m}"), rec("intersection", json!(o))),
            Ok((r, rn)) => {
                if !same_set(n, &rows_of(&r), &exp) {
                    v(&mut out, "intersection", "set", "intersection is not the set of points contained in both operands".into(), rec("intersection", json!(o)));
                }
                if !same_set(n, &rows_of(&rn), &exp) {
                    v(&mut out, "intersection_n", "set", "intersection_n is not the set of points contained in every operand".into(), rec("intersection_n", json!(o)));
                }
            }
        }
    }
    out.add("evaluations", 1);
    match catch(|| Polytope::intersection_n(n, &[] as &[Polytope])) {
        Ok(r) if same_set(n, &rows_of(&r), &vec![]) => {}
        _ => v(&mut out, "intersection_n", "empty_list", "intersection_n of no polytopes is not the whole space".into(), rec("intersection_n", json!([]))),
    }
    // apply_pre with square and non-square maps k -> n
    let maps: Vec<(Vec<Vec<f64>>, Vec<f64>)> = if n == 1 {
        vec![
            (vec![vec![2.0]], vec![1.0]),
            (vec![vec![-1.0]], vec![0.5]),
            (vec![vec![1.0, -1.0]], vec![0.0]),
            (vec![vec![0.0]], vec![1.0]),
            (vec![vec![0.5, 2.0, -1.0]], vec![-1.0]),
            // structured maps: pure translation, identity
            (vec![vec![1.0]], vec![1.5]),
            (vec![vec![1.0]], vec![0.0]),
        ]
    } else if n == 2 {
        vec![
            (vec![vec![1.0, 1.0], vec![0.0, 2.0]], vec![0.0, -1.0]),
            (vec![vec![0.0, -1.0], vec![1.0, 0.0]], vec![1.0, 0.0]),
            (vec![vec![1.0], vec![-2.0]], vec![0.5, 0.0]),
            (vec![vec![1.0, 0.0, 1.0], vec![0.0, 1.0, -1.0]], vec![0.0, 1.0]),
            (vec![vec![0.0, 0.0], vec![0.0, 0.0]], vec![1.0, 1.0]),
            // structured maps: pure translation, identity, scaling, rectangular "identity"
            (vec![vec![1.0, 0.0], vec![0.0, 1.0]], vec![1.0, -0.5]),
            (vec![vec![1.0, 0.0], vec![0.0, 1.0]], vec![0.0, 0.0]),
            (vec![vec![2.0, 0.0], vec![0.0, -1.0]], vec![0.5, 1.0]),
            (vec![vec![1.0, 0.0, 0.0], vec![0.0, 1.0, 0.0]], vec![1.0, 2.0]),
        ]
    } else {
        vec![
            (vec![vec![1.0, 0.0, 0.0], vec![0.0, 0.0, 1.0], vec![0.0, -1.0, 0.0]], vec![0.0, 1.0, 0.0]),
            (vec![vec![1.0], vec![1.0], vec![-1.0]], vec![0.0, 0.0, 1.0]),
            (vec![vec![1.0, 0.0, 0.0], vec![0.0, 1.0, 0.0], vec![0.0, 0.0, 1.0]], vec![1.0, -1.0, 0.5]),
        ]
    };
    for (m, c) in &maps {
        out.add("evaluations", 1);
        let k = m[0].len();
        let f = AffFunc::from_mats(arr2(m), Array1::from(c.clone()));
        let mq = qm(m);
        let cq: Vec<Q> = c.iter().map(|t| Q::from_f64(*t)).collect();
        match catch(|| p.apply_pre(&f)) {
            Err(e) => v(&mut out, "apply_pre", "panic", format!("apply_pre panicked: {e}"), rec("apply_pre", json!({"mat": m, "bias": c}))),
            Ok(r) => {
                let exp: Rows = rq.iter().map(|(a, b)| (vecmat(a, &mq), b - &dot(a, &cq))).collect();
                if r.mat.shape()[1] != k || !same_set(k, &rows_of(&r), &exp) {
                    v(&mut out, "apply_pre", "set", "apply_pre: x in result is not equivalent to f(x) in P".into(), rec("apply_pre", json!({"mat": m, "bias": c})));
                }
            }
        }
    }
    // apply_post with invertible maps whose inverse is dyadic; rotate with signed permutations
    let alpha: [f64; 4] = [0.0, 1.0, -1.0, 2.0];
    let mut mats: Vec<Vec<Vec<f64>>> = vec![];
    if n == 1 {
        mats = vec![vec![vec![1.0]], vec![vec![-1.0]], vec![vec![2.0]], vec![vec![-0.5]]];
    } else if n == 2 {
        for a in alpha { for b in alpha { for c in alpha { for d in alpha {
            let det: f64 = a * d - b * c;
            if det.abs() == 1.0 || det.abs() == 2.0 {
                mats.push(vec![vec![a, b], vec![c, d]]);
            }
        }}}}
        if tier == Tier::Quick {
            mats = mats.into_iter().enumerate().filter(|(i, _)| i % 3 == 0).map(|(_, m)| m).collect();
        }
    } else {
        mats = vec![vec![vec![0.0, 1.0, 0.0], vec![0.0, 0.0, 1.0], vec![1.0, 0.0, 0.0]], vec![vec![1.0, 1.0, 0.0], vec![0.0, 1.0, 1.0], vec![0.0, 0.0, 1.0]], vec![vec![2.0, 0.0, 0.0], vec![0.0, -1.0, 0.0], vec![1.0, 0.0, 1.0]]];
    }
    let mut biases = lattice(n, &[0.0, 1.0, -0.5]);
    if n >= 2 {
        // non-zero offsets whose entries cancel
        biases.push((0..n).map(|j| if j == 0 { 1.5 } else if j == 1 { -1.5 } else { 0.0 }).collect());
        biases.push((0..n).map(|j| if j == 0 { -2.0 } else { 2.0 / (n as f64 - 1.0) }).collect());
    }
    for (mi, m) in mats.iter().enumerate() {
        let mq = qm(m);
        let inv = match inverse(&mq) { Some(i) => i, None => continue };
        // inverse must be exactly representable
        let invf: Option<Vec<Vec<f64>>> = inv.iter().map(|r| r.iter().map(|x| x.to_f64_exact()).collect::<Option<Vec<f64>>>()).collect();
        let invf = match invf { Some(i) => i, None => continue };
        for c in [&biases[mi % biases.len()], &biases[biases.len() - 1 - (mi % 2)]] {
        let cq: Vec<Q> = c.iter().map(|t| Q::from_f64(*t)).collect();
        out.add("evaluations", 1);
        match catch(|| p.apply_post(&arr2(&invf), &Array1::from(c.clone()))) {
            Err(e) => v(&mut out, "apply_post", "panic", format!("apply_post panicked: {e}"), rec("apply_post", json!({"map": m, "bias": c}))),
            Ok(r) => {
                // image {M x + c | x in P} = {y | M^-1 (y - c) in P}
                let exp: Rows = rq.iter().map(|(a, b)| { let ai = vecmat(a, &inv); let sh = dot(&ai, &cq); (ai, b + &sh) }).collect();
                if !same_set(n, &rows_of(&r), &exp) {
                    v(&mut out, "apply_post", "set", "apply_post does not contain exactly the images of P's points".into(), rec("apply_post", json!({"map": m, "inverse_passed": invf, "bias": c})));
                }
            }
        }
        }
        // orthogonal ones (signed permutations): rotate
        let orth = (0..n).all(|i| (0..n).all(|j| { let mut s = Q::ZERO; for k in 0..n { s = s + &mq[k][i] * &mq[k][j]; } s == if i == j { Q::ONE } else { Q::ZERO } }));
        if orth {
            out.add("evaluations", 1);
            match catch(|| p.rotate(&arr2(m))) {
                Err(e) => v(&mut out, "rotate", "panic", format!("rotate panicked: {e}"), rec("rotate", json!(m))),
                Ok(r) => {
                    // {R x | x in P} = {y | R^T y in P}: rows (a R^T) y <= b, (a R^T)_j = sum_i a_i R_ji
                    let exp: Rows = rq.iter().map(|(a, b)| (matvec(&mq, a), b.clone())).collect();
                    if !same_set(n, &rows_of(&r), &exp) {
                        v(&mut out, "rotate", "set", "rotate does not contain exactly the rotated points".into(), rec("rotate", json!(m)));
                    }
                }
            }
        }
    }
    // the 3-4-5 rotation (tolerant: images of lattice points inside P must be inside the rotated polytope)
    if n == 2 {
        let r345 = vec![vec![0.6, -0.8], vec![0.8, 0.6]];
        out.add("evaluations", 1);
        if let Ok(rp) = catch(|| p.rotate(&arr2(&r345))) {
            for x in &lat {
                let xq: Vec<Q> = x.iter().map(|t| Q::from_f64(*t)).collect();
                let margin: Option<Q> = rq.iter().map(|(a, b)| b - &dot(a, &xq)).min();
                let y = Array1::from(vec![0.6 * x[0] - 0.8 * x[1], 0.8 * x[0] + 0.6 * x[1]]);
                if let Some(mg) = margin {
                    let inside = rp.contains(&y);
                    if mg >= Q::from_f64(1e-6) && !inside {
                        v(&mut out, "rotate", "point_lost", format!("rotate(3-4-5): image of interior point {:?} is not contained", x), rec("rotate", json!(r345)));
                    }
                    if mg <= Q::from_f64(-1e-6) && inside {
                        v(&mut out, "rotate", "point_gained", format!("rotate(3-4-5): image of exterior point {:?} is contained", x), rec("rotate", json!(r345)));
                    }
                }
            }
        }
    }
    out
}

fn check_constructors(dim: usize) -> CaseOut {
    let mut out = CaseOut::default();
    let rec = |op: &str, arg: serde_json::Value| json!({"dim": dim, "constructor": op, "argument": arg});
    let n = dim;
    out.add("systems", 1);
    out.add("systems_nontrivial", 1);
    let unit = |i: usize, s: f64| -> Vec<Q> { (0..n).map(|j| if i == j { Q::from_f64(s) } else { Q::ZERO }).collect() };
    // unbounded / empty
    out.add("evaluations", 2);
    match catch(|| Polytope::unbounded(n)) {
        Ok(p) if same_set(n, &rows_of(&p), &vec![]) && p.mat.shape()[1] == n => {}
        _ => v(&mut out, "unbounded", "set", "unbounded(dim) is not the whole space".into(), rec("unbounded", json!(null))),
    }
    match catch(|| Polytope::empty(n)) {
        Ok(p) if is_empty(n, &rows_of(&p)) && p.mat.shape()[1] == n => {}
        _ => v(&mut out, "empty", "set", "empty(dim) contains a point".into(), rec("empty", json!(null))),
    }
    // hypercube
    // (a negative radius describes the empty set {x_i <= r, -x_i <= r})
    for r in [0.0, 0.5, 1.0, 2.0, -0.5, -1.0] {
        out.add("evaluations", 1);
        let mut exp: Rows = vec![];
        for i in 0..n {
            exp.push((unit(i, 1.0), Q::from_f64(r)));
            exp.push((unit(i, -1.0), Q::from_f64(r)));
        }
        match catch(|| Polytope::hypercube(n, r)) {
            Ok(p) if same_set(n, &rows_of(&p), &exp) => {}
            Ok(_) => v(&mut out, "hypercube", "set", format!("hypercube({n},{r}) is not {{|x_i| <= r}}"), rec("hypercube", json!(r))),
            Err(m) => v(&mut out, "hypercube", "panic", m, rec("hypercube", json!(r))),
        }
    }
    // axis_bounds / hyperrectangle with infinite bounds
    let bounds = [
        (f64::NEG_INFINITY, f64::INFINITY), (f64::NEG_INFINITY, 1.0), (f64::NEG_INFINITY, -0.5), (f64::NEG_INFINITY, 2.0),
        (-1.0, f64::INFINITY), (0.5, f64::INFINITY), (-2.0, f64::INFINITY), (-1.0, 2.0), (0.5, 0.5), (-2.0, -1.0),
    ];
    for axis in 0..n {
        for (lo, hi) in bounds {
            out.add("evaluations", 1);
            let mut exp: Rows = vec![];
            if lo.is_finite() { exp.push((unit(axis, -1.0), Q::from_f64(-lo))); }
            if hi.is_finite() { exp.push((unit(axis, 1.0), Q::from_f64(hi))); }
            match catch(|| Polytope::axis_bounds(n, axis, lo, hi)) {
                Ok(p) if same_set(n, &rows_of(&p), &exp) => {}
                Ok(_) => v(&mut out, "axis_bounds", "set", format!("axis_bounds({n},{axis},{lo},{hi}) wrong set"), rec("axis_bounds", json!([axis, lo.to_string(), hi.to_string()]))),
                Err(m) => v(&mut out, "axis_bounds", "panic", m, rec("axis_bounds", json!([axis, lo.to_string(), hi.to_string()]))),
            }
        }
    }
    // hyperrectangle: every assignment of bounds for dim <= 2, rotating assignment above
    let assigns: Vec<Vec<(f64, f64)>> = if n <= 2 {
        let mut v2 = vec![];
        let mut idx = vec![0usize; n];
        loop {
            v2.push(idx.iter().map(|i| bounds[*i]).collect());
            let mut k = 0;
            loop { if k == n { break; } idx[k] += 1; if idx[k] < bounds.len() { break; } idx[k] = 0; k += 1; }
            if k == n { break; }
        }
        v2
    } else {
        (0..bounds.len()).map(|s| (0..n).map(|i| bounds[(s + i) % bounds.len()]).collect()).collect()
    };
    for iv in assigns {
        out.add("evaluations", 1);
        let mut exp: Rows = vec![];
        for (i, (lo, hi)) in iv.iter().enumerate() {
            if lo.is_finite() { exp.push((unit(i, -1.0), Q::from_f64(-*lo))); }
            if hi.is_finite() { exp.push((unit(i, 1.0), Q::from_f64(*hi))); }
        }
        let arg = json!(iv.iter().map(|(a, b)| (a.to_string(), b.to_string())).collect::<Vec<_>>());
        match catch(|| Polytope::hyperrectangle(&iv)) {
            Ok(p) if same_set(n, &rows_of(&p), &exp) => {}
            Ok(_) => v(&mut out, "hyperrectangle", "set", "hyperrectangle wrong set".into(), rec("hyperrectangle", arg)),
            Err(m) => v(&mut out, "hyperrectangle", "panic", m, rec("hyperrectangle", arg)),
        }
    }
    // cross polytope: |x|_1 <= 1 on a lattice
    if n <= 4 {
        match catch(|| Polytope::cross_polytope(n)) {
            Err(m) => v(&mut out, "cross_polytope", "panic", m, rec("cross_polytope", json!(null))),
            Ok(p) => {
                let rq = rows_of(&p);
                let vals: &[f64] = if n <= 3 { &[-1.0, -0.5, 0.0, 0.25, 0.5, 1.0, 1.5] } else { &[-1.0, 0.0, 0.5, 1.0] };
                for x in lattice(n, vals) {
                    out.add("evaluations", 1);
                    let l1: f64 = x.iter().map(|t| t.abs()).sum();
                    let xq: Vec<Q> = x.iter().map(|t| Q::from_f64(*t)).collect();
                    let inside = rq.iter().all(|(a, b)| &dot(a, &xq) <= b);
                    if inside != (l1 <= 1.0) || p.contains(&Array1::from(x.clone())) != (l1 <= 1.0) {
                        v(&mut out, "cross_polytope", "membership", format!("cross_polytope({n}) at {:?}: |x|_1 = {l1}, contained = {inside}", x), rec("cross_polytope", json!(x)));
                        break;
                    }
                }
            }
        }
        // simplex = conv{e_1..e_n, t(1,..,1)}, t = (1 - sqrt(n+1))/n, via barycentric coordinates:
        // mu >= 0 <=> sum x <= 1 ; lambda_i >= 0 <=> (n x_i + 1 - sum x) s - (1 - sum x) >= 0 with s = sqrt(n+1)
        match catch(|| Polytope::simplex(n)) {
            Err(m) => v(&mut out, "simplex", "panic", m, rec("simplex", json!(null))),
            Ok(p) => {
                let s = ((n + 1) as f64).sqrt();
                let t = (1.0 - s) / n as f64;
                let mut pts: Vec<Vec<f64>> = lattice(n, if n <= 3 { &[-0.5, -0.25, 0.0, 0.25, 0.5, 1.0] } else { &[-0.25, 0.0, 0.5, 1.0] });
                // points on rays from the centroid through the vertices, inside (0.9) and outside (1.1)
                let mut verts: Vec<Vec<f64>> = (0..n).map(|i| (0..n).map(|j| if i == j { 1.0 } else { 0.0 }).collect()).collect();
                verts.push(vec![t; n]);
                let cen: Vec<f64> = (0..n).map(|j| verts.iter().map(|vv| vv[j]).sum::<f64>() / (n + 1) as f64).collect();
                for vv in &verts {
                    for f in [0.9, 1.1, 0.5] {
                        pts.push((0..n).map(|j| cen[j] + f * (vv[j] - cen[j])).collect());
                    }
                }
                pts.push(vec![0.0; n]);
                for x in pts {
                    out.add("evaluations", 1);
                    let sum: f64 = x.iter().sum();
                    // signed margins of the barycentric conditions (f64 is enough away from the boundary)
                    let mut margin = 1.0 - sum;
                    for i in 0..n {
                        margin = margin.min((n as f64 * x[i] + 1.0 - sum) * s - (1.0 - sum));
                    }
                    if margin.abs() < 1e-6 {
                        continue;
                    }
                    let c = p.contains(&Array1::from(x.clone()));
                    if c != (margin > 0.0) {
                        v(&mut out, "simplex", "membership", format!("simplex({n}) at {:?}: barycentric margin {margin}, contains = {c}", x), rec("simplex", json!(x)));
                        break;
                    }
                }
            }
        }
    }
    // from_normal: {x | n_i.(x - p_i) >= 0}
    let normals = lattice(n, &[1.0, 0.0, -1.0]);
    let points = lattice(n, &[0.0, 1.0, -0.5]);
    for (i, nv) in normals.iter().enumerate() {
        for (j, pt) in points.iter().enumerate() {
            if n >= 3 && (i + j) % 3 != 0 {
                continue;
            }
            out.add("evaluations", 1);
            let nv2 = &normals[(i + 1) % normals.len()];
            let pt2 = &points[(j + 2) % points.len()];
            let nm = arr2(&[nv.clone(), nv2.clone()]);
            let pm = arr2(&[pt.clone(), pt2.clone()]);
            let nq = |x: &Vec<f64>| -> Vec<Q> { x.iter().map(|t| Q::from_f64(*t)).collect() };
            let exp: Rows = vec![
                (nq(nv).iter().map(|t| -t).collect(), -dot(&nq(nv), &nq(pt))),
                (nq(nv2).iter().map(|t| -t).collect(), -dot(&nq(nv2), &nq(pt2))),
            ];
            match catch(|| Polytope::from_normal(nm.clone(), pm.clone())) {
                Ok(p) if same_set(n, &rows_of(&p), &exp) => {}
                Ok(_) => v(&mut out, "from_normal", "set", "from_normal is not {x | n_i.(x-p_i) >= 0}".into(), rec("from_normal", json!({"normals": [nv, nv2], "points": [pt, pt2]}))),
                Err(m) => v(&mut out, "from_normal", "panic", m, rec("from_normal", json!({"normals": [nv, nv2], "points": [pt, pt2]}))),
            }
        }
    }
    out
}

/// The single-precision instantiation `AffFuncBase<PolytopeT, OwnedRepr<f32>>` of the same generic code: membership
/// within the documented 1e-8 on axis-parallel rows (where the f32 arithmetic of `contains` is exact).
fn check_f32() -> CaseOut {
    use affinitree::linalg::affine::{AffFuncBase, PolytopeT};
    type P32 = AffFuncBase<PolytopeT, ndarray::OwnedRepr<f32>>;
    let mut out = CaseOut::default();
    out.add("systems", 1);
    out.add("systems_nontrivial", 1);
    let ulp = f32::EPSILON; // 2^-23
    for n in 1..=2usize {
        for (axis, sign, b) in [(0usize, 1.0f32, 0.0f32), (0, 1.0, 1.0), (0, -1.0, 1.0), (n - 1, 1.0, -2.0), (n - 1, -1.0, 0.0)] {
            let mut m = ndarray::Array2::<f32>::zeros((1, n));
            m[[0, axis]] = sign;
            let by_rows = P32::from_mats(m, ndarray::arr1(&[b]));
            let cube = P32::hypercube(n, 1.0f32);
            // coordinate values around the boundary sign * x = b
            let base = sign * b;
            for (delta, name) in [(0.0f32, "on"), (5e-8, "5e-8 beyond"), (ulp * base.abs().max(1.0), "one f32 ulp beyond"), (-5e-8, "5e-8 inside"), (1e-3, "1e-3 beyond")] {
                out.add("evaluations", 1);
                let mut x = ndarray::Array1::<f32>::zeros(n);
                x[axis] = base + sign * delta;
                // exact verdict from the f32 values actually stored
                let viol = (sign as f64) * (x[axis] as f64) - (b as f64);
                let must_out = viol > 2e-8;
                let must_in = viol <= 0.0;
                match catch(|| by_rows.contains(&x)) {
                    Err(m) => v(&mut out, "contains", "panic", format!("f32 contains panicked: {m}"), json!({"n": n, "axis": axis})),
                    Ok(c) => {
                        if (must_out && c) || (must_in && !c) {
                            v(&mut out, "contains", "f32_membership", format!("f32 polytope {sign} x_{axis} <= {b}: contains(point {name}) = {c}, violation {viol:e}"), json!({"n": n, "axis": axis, "sign": sign, "bias": b, "delta": delta}));
                        }
                    }
                }
            }
            // hypercube(n, 1): one ulp above 1 on an axis is outside, 1 itself is inside
            for (val, inside) in [(1.0f32, true), (1.0 + ulp, false), (-1.0 - ulp, false), (-1.0, true)] {
                out.add("evaluations", 1);
                let mut x = ndarray::Array1::<f32>::zeros(n);
                x[axis] = val;
                match catch(|| cube.contains(&x)) {
                    Ok(c) if c == inside => {}
                    other => v(&mut out, "hypercube", "f32_membership", format!("f32 hypercube({n}, 1): contains(x_{axis} = {val:e}) = {:?}, expected {inside}", other), json!({"n": n, "axis": axis, "value": val})),
                }
            }
        }
    }
    out
}

pub fn cases(tier: Tier) -> Vec<Case> {
    let mut v = vec![];
    let bias = [-2.0, -1.0, 0.0, 1.0, 2.0];
    let coef = [0.0, 1.0, -1.0, 2.0];
    match tier {
        Tier::Quick => {
            for m in 1..=3 { for s in systems(1, m, &coef, &bias) { v.push(Case::Transform(s)); } }
            for s in systems(2, 1, &coef, &bias) { v.push(Case::Transform(s)); }
            for s in systems(2, 2, &coef, &[-1.0, 0.0, 1.0]) { v.push(Case::Transform(s)); }
            for (i, s) in systems(2, 3, &[0.0, 1.0, -1.0], &[0.0, 1.0]).into_iter().enumerate() { if i % 3 == 0 { v.push(Case::Transform(s)); } }
            for (i, s) in systems(3, 2, &[0.0, 1.0, -1.0], &[0.0, 1.0]).into_iter().enumerate() { if i % 9 == 0 { v.push(Case::Transform(s)); } }
        }
        Tier::Thorough => {
            for m in 1..=3 { for s in systems(1, m, &coef, &bias) { v.push(Case::Transform(s)); } }
            for m in 1..=2 { for s in systems(2, m, &coef, &bias) { v.push(Case::Transform(s)); } }
            for s in systems(2, 3, &[0.0, 1.0, -1.0], &[-1.0, 0.0, 1.0]) { v.push(Case::Transform(s)); }
            for (i, s) in systems(3, 2, &[0.0, 1.0, -1.0], &[0.0, 1.0]).into_iter().enumerate() { if i % 2 == 0 { v.push(Case::Transform(s)); } }
        }
    }
    // zero rows whose bias is -0.0 (a tautology, as from_normal produces for a degenerate normal), alone and next to
    // ordinary rows
    for n in 1..=2usize {
        let z = (vec![0.0; n], -0.0f64);
        v.push(Case::Transform(Sys { n, rows: vec![z.clone()] }));
        for b in [-1.0, 0.0, 1.0] {
            let r = ((0..n).map(|i| if i == 0 { 1.0 } else { -1.0 }).collect::<Vec<f64>>(), b);
            v.push(Case::Transform(Sys { n, rows: vec![z.clone(), r.clone()] }));
            v.push(Case::Transform(Sys { n, rows: vec![r, z.clone()] }));
        }
    }
    for d in 1..=(if tier == Tier::Quick { 4 } else { 5 }) {
        v.push(Case::Constructors(d));
    }
    v
}

pub fn run(tier: Tier) -> Report {
    let mut rep = Report::new("C14", tier, "exploration");
    let cs = cases(tier);
    let total = par_cases(&cs, |i, c| match c {
        Case::Transform(s) => {
            let mut o = check_transform(s, tier);
            // every 2nd system with a matrix of at least 2x2 once more with column-major storage of the polytope,
            // of the second operands and of the maps
            if s.n >= 2 && s.rows.len() >= 2 && i % 2 == 0 {
                super::c10::FORTRAN.with(|f| f.set(true));
                let mut o2 = check_transform(s, tier);
                super::c10::FORTRAN.with(|f| f.set(false));
                for v in o2.violations.iter_mut() {
                    v.tags.insert("storage".into(), "column_major".into());
                }
                o2.vcount = o2.vcount.into_iter().map(|(k, c)| (format!("{k}+cm"), c)).collect();
                o.add("systems_column_major", 1);
                o.merge(o2);
            }
            o
        }
        Case::Constructors(d) => {
            let mut o = check_constructors(*d);
            if *d == 1 {
                o.merge(check_f32());
            }
            o
        }
    });
    rep.set("cases_total", cs.len() as u64);
    if let Some(Case::Transform(s)) = cs.get(cs.len() / 2) {
        rep.samples.push(json!({"n": s.n, "rows_A_b": s.rows, "checked": ["contains/distance on a 7^n lattice", "translate x 4^n directions", "intersection(_n)", "apply_pre x 5-9 maps incl. pure translations", "apply_post / rotate x invertible dyadic matrices"]}));
    }
    rep.absorb(total);
    let nt = rep.coverage.get("systems_nontrivial").and_then(|v| v.as_u64()).unwrap_or(0);
    rep.set("distinct_nontrivial", nt);
    rep.set("rule", "polytopes: every ordered row list over the coefficient/bias alphabets; per polytope every listed argument (lattice points, translation vectors, affine maps k->n, invertible matrices with dyadic inverse, signed permutations); constructors for every dimension with every axis / bound pair incl. +-inf; one evaluation per (object, argument); non-trivial = polytope with a non-zero row, or a constructor case");
    rep.set("bound", match tier {
        Tier::Quick => "n=1: m<=3 rows; n=2: m<=2, every 3rd system with m=3; n=3: every 9th with m=2; constructors dim 1..4; systems with a matrix of at least 2x2: every 2nd once more with column-major storage",
        Tier::Thorough => "n=1: m<=3; n=2: m<=3; n=3: every 2nd with m=2; constructors dim 1..5; systems with a matrix of at least 2x2: every 2nd once more with column-major storage",
    });
    rep.assume("set equality by exact mutual inclusion; contains bound to exact membership within 1e-8; simplex (irrational vertex) judged away from its boundary (margin 1e-6) through barycentric coordinates; 3-4-5 rotation judged on lattice points with margin 1e-6");
    rep
}
