//! C16 — affine functions obey their algebra and named constructors their names.
//! Affine identities are decided on coefficients (hence for all x), with exact rationals.
use crate::q::{dot, Q};
use crate::report::{catch, par_cases, CaseOut, Report, Tier, Violation};
use crate::snap::{arr1_to_q, arr2_to_q};
use affinitree::linalg::affine::{AffFunc, PolyRepr, Polytope};
use ndarray::{Array1, Array2, Axis};
use serde_json::json;
use std::ops::{Add, Div, Mul, Neg, Rem, Sub};

#[derive(Clone, Debug)]
pub struct M {
    pub mat: Vec<Vec<f64>>,
    pub bias: Vec<f64>,
    pub cols: usize,
    /// build the real object with a column-major matrix
    pub fortran: bool,
    /// build the real object with negative strides: matrix and bias are stored mirrored and their axes inverted,
    /// so they are equal to the plain ones as arrays
    pub mirrored: bool,
}

impl M {
    /// column-major storage when `fortran` is set
    fn real_l(&self) -> AffFunc {
        if self.mirrored {
            let r = self.mat.len();
            let mut a = Array2::<f64>::zeros((r, self.cols));
            for i in 0..r {
                for j in 0..self.cols {
                    a[[r - 1 - i, self.cols - 1 - j]] = self.mat[i][j];
                }
            }
            a.invert_axis(Axis(0));
            a.invert_axis(Axis(1));
            let mut b = Array1::from(self.bias.iter().rev().cloned().collect::<Vec<f64>>());
            b.invert_axis(Axis(0));
            return AffFunc::from_mats(a, b);
        }
        if !self.fortran {
            return self.real();
        }
        use ndarray::ShapeBuilder;
        let r = self.mat.len();
        let mut a = Array2::<f64>::zeros((r, self.cols).f());
        for i in 0..r {
            for j in 0..self.cols {
                a[[i, j]] = self.mat[i][j];
            }
        }
        AffFunc::from_mats(a, Array1::from(self.bias.clone()))
    }
    fn real(&self) -> AffFunc {
        let r = self.mat.len();
        let mut a = Array2::<f64>::zeros((r, self.cols));
        for i in 0..r {
            for j in 0..self.cols {
                a[[i, j]] = self.mat[i][j];
            }
        }
        AffFunc::from_mats(a, Array1::from(self.bias.clone()))
    }
    fn q(&self) -> (Vec<Vec<Q>>, Vec<Q>) {
        (self.mat.iter().map(|r| r.iter().map(|x| Q::from_f64(*x)).collect()).collect(), self.bias.iter().map(|x| Q::from_f64(*x)).collect())
    }
    fn json(&self) -> serde_json::Value {
        json!({"mat": self.mat, "bias": self.bias, "column_major": self.fortran, "negative_strides": self.mirrored})
    }
}

fn of(a: &AffFunc) -> (Vec<Vec<Q>>, Vec<Q>) {
    (arr2_to_q(&a.mat), arr1_to_q(&a.bias))
}

/// all (rows x cols) matrices + biases with at most `nz` non-zero entries over `vals`
pub fn mats(rows: usize, cols: usize, vals: &[f64], nz: usize) -> Vec<M> {
    let slots = rows * cols + rows;
    let mut out = vec![];
    fn rec(slots: usize, start: usize, left: usize, vals: &[f64], cur: &mut Vec<f64>, out: &mut Vec<Vec<f64>>) {
        out.push(cur.clone());
        if left == 0 {
            return;
        }
        for s in start..slots {
            for v in vals {
                cur[s] = *v;
                rec(slots, s + 1, left - 1, vals, cur, out);
                cur[s] = 0.0;
            }
        }
    }
    let mut flat = vec![];
    rec(slots, 0, nz, vals, &mut vec![0.0; slots], &mut flat);
    for f in flat {
        let mat: Vec<Vec<f64>> = (0..rows).map(|i| f[i * cols..(i + 1) * cols].to_vec()).collect();
        let bias = f[rows * cols..].to_vec();
        out.push(M { mat, bias, cols, fortran: false, mirrored: false });
    }
    out
}

#[derive(Clone, Debug)]
pub enum Case {
    Pair(M, M),     // compose(f, g) with f: k->m, g: n->k ; also stack / elementwise when shapes agree
    Single(M),
    Constructors(usize),
}

fn viol(out: &mut CaseOut, call: &str, kind: &str, msg: String, rec: serde_json::Value) {
    out.violate(Violation::new(msg, rec).tag("call", call).tag("kind", kind));
}

fn elementwise<F: Fn(f64, f64) -> f64>(a: &M, b: &M, f: F) -> (Vec<Vec<Q>>, Vec<Q>) {
    (
        a.mat.iter().zip(b.mat.iter()).map(|(r, s)| r.iter().zip(s.iter()).map(|(x, y)| Q::from_f64(f(*x, *y))).collect()).collect(),
        a.bias.iter().zip(b.bias.iter()).map(|(x, y)| Q::from_f64(f(*x, *y))).collect(),
    )
}

fn six<O>(f1: &AffFunc, f2: &AffFunc, op: O) -> Vec<(&'static str, Result<AffFunc, String>)>
where
    O: Fn(u8, &AffFunc, &AffFunc) -> AffFunc,
{
    ["f.clone() op g.clone()", "f.clone() op g.view()", "f.clone() op &g", "f.clone() op &g.view()", "&f op &g.view()", "&f.view() op &g.view()"]
        .iter()
        .enumerate()
        .map(|(i, n)| (*n, catch(|| op(i as u8, f1, f2))))
        .collect()
}

macro_rules! variants {
    ($op:ident) => {
        |i: u8, f1: &AffFunc, f2: &AffFunc| -> AffFunc {
            match i {
                0 => f1.clone().$op(f2.clone()),
                1 => f1.clone().$op(f2.view()),
                2 => f1.clone().$op(f2),
                3 => f1.clone().$op(&f2.view()),
                4 => f1.$op(&f2.view()),
                _ => (&f1.view()).$op(&f2.view()),
            }
        }
    };
}

fn check_pair(f: &M, g: &M) -> CaseOut {
    let mut out = CaseOut::default();
    let rec = |op: &str| json!({"f": f.json(), "g": g.json(), "operation": op});
    let (fm, fb) = f.q();
    let (gm, gb) = g.q();
    let fr = f.real_l();
    let gr = g.real_l();
    out.add("cases", 1);
    // compose when f.indim == g.outdim
    if f.cols == g.mat.len() {
        out.add("evaluations", 1);
        match catch(|| fr.compose(&gr)) {
            Err(m) => viol(&mut out, "compose", "panic", m, rec("compose")),
            Ok(h) => {
                let n = g.cols;
                let exp_m: Vec<Vec<Q>> = fm.iter().map(|r| (0..n).map(|j| { let mut s = Q::ZERO; for k in 0..r.len() { s = s + &r[k] * &gm[k][j]; } s }).collect()).collect();
                let exp_b: Vec<Q> = fm.iter().zip(fb.iter()).map(|(r, c)| &dot(r, &gb) + c).collect();
                if of(&h) != (exp_m, exp_b) {
                    viol(&mut out, "compose", "coefficients", "compose(f,g) is not x -> f(g(x))".into(), rec("compose"));
                }
            }
        }
    }
    // stack when indims agree
    if f.cols == g.cols {
        out.add("evaluations", 1);
        match catch(|| fr.stack(&gr)) {
            Err(m) => viol(&mut out, "stack", "panic", m, rec("stack")),
            Ok(h) => {
                let mut em = fm.clone();
                em.extend(gm.clone());
                let mut eb = fb.clone();
                eb.extend(gb.clone());
                if of(&h) != (em, eb) {
                    viol(&mut out, "stack", "coefficients", "stack does not concatenate the outputs".into(), rec("stack"));
                }
            }
        }
    }
    // element-wise operators when shapes agree
    if f.cols == g.cols && f.mat.len() == g.mat.len() {
        let g_nonzero = g.mat.iter().flatten().all(|x| *x != 0.0) && g.bias.iter().all(|x| *x != 0.0);
        let ops: Vec<(&str, Box<dyn Fn(u8, &AffFunc, &AffFunc) -> AffFunc>, Box<dyn Fn(f64, f64) -> f64>, bool)> = vec![
            ("add", Box::new(variants!(add)), Box::new(|a, b| a + b), true),
            ("sub", Box::new(variants!(sub)), Box::new(|a, b| a - b), true),
            ("mul", Box::new(variants!(mul)), Box::new(|a, b| a * b), true),
            ("div", Box::new(variants!(div)), Box::new(|a, b| a / b), g_nonzero),
            ("rem", Box::new(variants!(rem)), Box::new(|a, b| a % b), g_nonzero),
        ];
        for (name, op, scalar, applicable) in ops {
            if !applicable {
                continue;
            }
            let exp = elementwise(f, g, |a, b| scalar(a, b));
            for (vname, res) in six(&fr, &gr, |i, a, b| op(i, a, b)) {
                out.add("evaluations", 1);
                match res {
                    Err(m) => viol(&mut out, name, "panic", format!("{vname}: {m}"), rec(name)),
                    Ok(h) => {
                        if of(&h) != exp {
                            viol(&mut out, name, "coefficients", format!("{name} ({vname}) is not coefficient-wise"), rec(name));
                        }
                    }
                }
            }
        }
    }
    out
}

fn check_single(f: &M) -> CaseOut {
    let mut out = CaseOut::default();
    let rec = |op: &str| json!({"f": f.json(), "operation": op});
    let (fm, fb) = f.q();
    let fr = f.real_l();
    let rows = f.mat.len();
    let n = f.cols;
    out.add("cases", 1);
    // negation, three forms
    let neg_exp: (Vec<Vec<Q>>, Vec<Q>) = (fm.iter().map(|r| r.iter().map(|x| -x).collect()).collect(), fb.iter().map(|x| -x).collect());
    for (name, res) in [("-f", catch(|| fr.clone().neg())), ("-&f", catch(|| (&fr).neg())), ("negate", catch(|| fr.clone().negate()))] {
        out.add("evaluations", 1);
        match res {
            Ok(h) if of(&h) == neg_exp => {}
            Ok(_) => viol(&mut out, "neg", "coefficients", format!("{name} is not the point-wise negation"), rec(name)),
            Err(m) => viol(&mut out, "neg", "panic", m, rec(name)),
        }
    }
    // apply / apply_transpose on a lattice
    let pts: Vec<Vec<f64>> = {
        let vals = [-2.0, -0.5, 0.0, 1.0, 3.0];
        let mut v = vec![];
        let mut idx = vec![0usize; n];
        loop {
            v.push(idx.iter().map(|i| vals[*i]).collect::<Vec<f64>>());
            let mut k = 0;
            loop { if k == n { break; } idx[k] += 1; if idx[k] < vals.len() { break; } idx[k] = 0; k += 1; }
            if k == n { break; }
        }
        v
    };
    // entries like 2^-600 next to ordinary ones: f64 evaluation is not exact there, only the structural checks apply
    let extreme = f.mat.iter().flatten().any(|v| *v != 0.0 && (v.abs() < 2f64.powi(-100) || v.abs() > 2f64.powi(100)));
    for x in pts.iter().filter(|_| !extreme) {
        out.add("evaluations", 1);
        let xq: Vec<Q> = x.iter().map(|t| Q::from_f64(*t)).collect();
        let exp: Vec<Q> = fm.iter().zip(fb.iter()).map(|(r, c)| &dot(r, &xq) + c).collect();
        match catch(|| fr.apply(&Array1::from(x.clone()))) {
            Ok(y) if arr1_to_q(&y) == exp => {}
            Ok(y) => viol(&mut out, "apply", "value", format!("apply({:?}) = {:?}", x, y.to_vec()), rec("apply")),
            Err(m) => viol(&mut out, "apply", "panic", m, rec("apply")),
        }
    }
    // apply_transpose: mat^T (y - bias)
    let ys: Vec<Vec<f64>> = (0..3).map(|s| (0..rows).map(|i| ((i + s) % 3) as f64 - 0.5).collect()).collect();
    for y in ys.iter().filter(|_| !extreme) {
        out.add("evaluations", 1);
        let yq: Vec<Q> = y.iter().map(|t| Q::from_f64(*t)).collect();
        let d: Vec<Q> = yq.iter().zip(fb.iter()).map(|(a, b)| a - b).collect();
        let exp: Vec<Q> = (0..n).map(|j| { let mut s = Q::ZERO; for i in 0..rows { s = s + &fm[i][j] * &d[i]; } s }).collect();
        match catch(|| fr.apply_transpose(&Array1::from(y.clone()))) {
            Ok(r) if arr1_to_q(&r) == exp => {}
            Ok(_) => viol(&mut out, "apply_transpose", "value", "apply_transpose is not mat^T (y - bias)".into(), rec("apply_transpose")),
            Err(m) => viol(&mut out, "apply_transpose", "panic", m, rec("apply_transpose")),
        }
    }
    // row / row_iter / from_row_iter / view / to_owned
    out.add("evaluations", 4);
    let r = catch(|| {
        let mut ok = true;
        for i in 0..rows {
            let v = fr.row(i);
            ok &= arr2_to_q(&v.mat.to_owned()) == vec![fm[i].clone()] && arr1_to_q(&v.bias.to_owned()) == vec![fb[i].clone()];
        }
        let it: Vec<_> = fr.row_iter().map(|v| (arr2_to_q(&v.mat.to_owned()), arr1_to_q(&v.bias.to_owned()))).collect();
        ok &= it.len() == rows && it.iter().enumerate().all(|(i, (m, b))| *m == vec![fm[i].clone()] && *b == vec![fb[i].clone()]);
        let rebuilt = AffFunc::from_row_iter(n, rows, fr.mat.axis_iter(Axis(0)).zip(fr.bias.iter()));
        ok &= of(&rebuilt) == (fm.clone(), fb.clone());
        let vw = fr.view();
        ok &= of(&vw.to_owned()) == (fm.clone(), fb.clone());
        ok
    });
    match r {
        Ok(true) => {}
        Ok(false) => viol(&mut out, "row_view", "coefficients", "row / row_iter / from_row_iter / view / to_owned do not preserve the function".into(), rec("row_view")),
        Err(m) => viol(&mut out, "row_view", "panic", m, rec("row_view")),
    }
    // remove_rows for every ascending index set
    for mask in 0..(1u32 << rows) {
        let idx: Vec<usize> = (0..rows).filter(|i| mask & (1 << i) != 0).collect();
        out.add("evaluations", 1);
        // the index set is passed as a Vec for even masks and as a lazily filtered iterator (size_hint lower bound 0)
        // for odd ones
        let res = if mask % 2 == 0 { catch(|| fr.remove_rows(idx.clone())) } else { catch(|| fr.remove_rows((0..rows).filter(|i| mask & (1 << i) != 0))) };
        match res {
            Err(m) => viol(&mut out, "remove_rows", "panic", format!("remove_rows({:?}): {m}", idx), rec("remove_rows")),
            Ok(h) => {
                let em: Vec<Vec<Q>> = fm.iter().enumerate().filter(|(i, _)| !idx.contains(i)).map(|(_, r)| r.clone()).collect();
                let eb: Vec<Q> = fb.iter().enumerate().filter(|(i, _)| !idx.contains(i)).map(|(_, r)| r.clone()).collect();
                if of(&h) != (em, eb) || h.mat.shape()[1] != n {
                    viol(&mut out, "remove_rows", "coefficients", format!("remove_rows({:?}) keeps other rows than those not named", idx), rec("remove_rows"));
                }
            }
        }
    }
    // remove_zero_rows: drops exactly the rows that are zero in matrix and bias
    out.add("evaluations", 1);
    match catch(|| fr.remove_zero_rows()) {
        Err(m) => viol(&mut out, "remove_zero_rows", "panic", m, rec("remove_zero_rows")),
        Ok(h) => {
            let keep: Vec<usize> = (0..rows).filter(|i| fm[*i].iter().any(|v| !v.is_zero()) || !fb[*i].is_zero()).collect();
            let em: Vec<Vec<Q>> = keep.iter().map(|i| fm[*i].clone()).collect();
            let eb: Vec<Q> = keep.iter().map(|i| fb[*i].clone()).collect();
            if of(&h) != (em, eb) {
                viol(&mut out, "remove_zero_rows", "coefficients", "remove_zero_rows changed a non-zero row or kept a zero row".into(), rec("remove_zero_rows"));
            }
        }
    }
    // remove_zero_columns: the function of the remaining coordinates is preserved
    out.add("evaluations", 1);
    match catch(|| fr.remove_zero_columns()) {
        Err(m) => viol(&mut out, "remove_zero_columns", "panic", format!("remove_zero_columns panicked: {m}"), rec("remove_zero_columns")),
        Ok(h) => {
            let keep: Vec<usize> = (0..n).filter(|j| (0..rows).any(|i| !fm[i][*j].is_zero())).collect();
            let em: Vec<Vec<Q>> = fm.iter().map(|r| keep.iter().map(|j| r[*j].clone()).collect()).collect();
            let (hm, hb) = of(&h);
            let shape_ok = h.mat.shape() == [rows, keep.len()];
            if !shape_ok || (keep.len() > 0 && hm != em) || hb != fb {
                viol(&mut out, "remove_zero_columns", "coefficients", "remove_zero_columns does not keep exactly the non-zero columns".into(), rec("remove_zero_columns"));
            }
        }
    }
    // function <-> polytope conversions
    out.add("evaluations", 5);
    let p: Polytope = Polytope::from_mats(fr.mat.clone(), fr.bias.clone());
    let r = catch(|| {
        let mut bad: Vec<String> = vec![];
        let ap = fr.as_polytope();
        if (arr2_to_q(&ap.mat), arr1_to_q(&ap.bias)) != (fm.clone(), fb.clone()) {
            bad.push("as_polytope".into());
        }
        let af = p.as_function();
        if of(&af) != (fm.clone(), fb.clone()) {
            bad.push("as_function".into());
        }
        // reading of each representation, mapped back to A x <= b
        for repr in [PolyRepr::MatrixLeqBias, PolyRepr::MatrixBiasLeqZero, PolyRepr::MatrixGeqBias, PolyRepr::MatrixBiasGeqZero] {
            let c = p.clone().convert_to(repr);
            let (cm, cb) = of(&c);
            let negm = |m: &Vec<Vec<Q>>| -> Vec<Vec<Q>> { m.iter().map(|r| r.iter().map(|x| -x).collect()).collect() };
            let negv = |v: &Vec<Q>| -> Vec<Q> { v.iter().map(|x| -x).collect() };
            let back = match repr {
                PolyRepr::MatrixLeqBias => (cm, cb),                       // M x <= c
                PolyRepr::MatrixBiasLeqZero => (cm, negv(&cb)),            // M x + c <= 0
                PolyRepr::MatrixGeqBias => (negm(&cm), negv(&cb)),         // M x >= c
                PolyRepr::MatrixBiasGeqZero => (negm(&cm), cb),            // M x + c >= 0
            };
            if back != (fm.clone(), fb.clone()) {
                bad.push(format!("convert_to({:?})", repr));
            }
        }
        bad
    });
    match r {
        Ok(bad) => {
            for b in bad {
                viol(&mut out, "conversion", "half_space", format!("{b} does not preserve the half-spaces"), rec(&b));
            }
        }
        Err(m) => viol(&mut out, "conversion", "panic", m, rec("conversion")),
    }
    out
}

fn check_constructors(dim: usize) -> CaseOut {
    let mut out = CaseOut::default();
    out.add("cases", 1);
    let rec = |op: &str, arg: serde_json::Value| json!({"dim": dim, "constructor": op, "argument": arg});
    // probe points: unit vectors, a generic point
    let mut pts: Vec<Vec<f64>> = (0..dim).map(|i| (0..dim).map(|j| if i == j { 1.0 } else { 0.0 }).collect()).collect();
    pts.push((0..dim).map(|j| (j as f64) * 0.5 - 1.0).collect());
    pts.push(vec![0.0; dim]);
    pts.push((0..dim).map(|j| if j % 2 == 0 { 3.0 } else { -2.0 }).collect());
    let mut test = |out: &mut CaseOut, name: &str, arg: serde_json::Value, f: Result<AffFunc, String>, spec: &dyn Fn(&[f64]) -> Vec<f64>| {
        out.add("evaluations", 1);
        match f {
            Err(m) => viol(out, name, "panic", format!("{name} panicked: {m}"), rec(name, arg)),
            Ok(f) => {
                if f.mat.shape()[1] != dim {
                    viol(out, name, "shape", format!("{name}: input dimension {} instead of {dim}", f.mat.shape()[1]), rec(name, arg));
                    return;
                }
                // affine map: agreement on the origin and the unit vectors (and two more points) decides equality
                for x in &pts {
                    let y = f.apply(&Array1::from(x.clone())).to_vec();
                    let e = spec(x);
                    if y != e {
                        viol(out, name, "value", format!("{name}({:?}) = {:?}, documented {:?}", x, y, e), rec(name, arg));
                        return;
                    }
                }
            }
        }
    };
    test(&mut out, "identity", json!(null), catch(|| AffFunc::identity(dim)), &|x| x.to_vec());
    test(&mut out, "zeros", json!(null), catch(|| AffFunc::zeros(dim)), &|x| vec![0.0; x.len()]);
    test(&mut out, "sum", json!(null), catch(|| AffFunc::sum(dim)), &|x| vec![x.iter().sum()]);
    for val in [0.0, 1.5, -2.0] {
        test(&mut out, "constant", json!(val), catch(|| AffFunc::constant(dim, val)), &|_| vec![val]);
        test(&mut out, "uniform_scaling", json!(val), catch(|| AffFunc::uniform_scaling(dim, val)), &|x| x.iter().map(|t| t * val).collect());
    }
    for i in 0..dim {
        test(&mut out, "unit", json!(i), catch(|| AffFunc::unit(dim, i)), &|x| vec![x[i]]);
        test(&mut out, "zero_idx", json!(i), catch(|| AffFunc::zero_idx(dim, i)), &|x| x.iter().enumerate().map(|(j, t)| if j == i { 0.0 } else { *t }).collect());
        for j in 0..dim {
            test(&mut out, "subtraction", json!([i, j]), catch(|| AffFunc::subtraction(dim, i, j)), &|x| vec![x[i] - x[j]]);
        }
    }
    let scal: Vec<f64> = (0..dim).map(|j| [2.0, -1.0, 0.5, 0.0, 3.0][j % 5]).collect();
    test(&mut out, "scaling", json!(scal), catch(|| AffFunc::scaling(&Array1::from(scal.clone()))), &|x| x.iter().zip(scal.iter()).map(|(a, b)| a * b).collect());
    // rotation: permutation / sign matrices and a generic dyadic matrix
    let mut rm = Array2::<f64>::zeros((dim, dim));
    for i in 0..dim {
        rm[[i, (i + 1) % dim]] = if i % 2 == 0 { 1.0 } else { -1.0 };
    }
    let rm2 = rm.clone();
    test(&mut out, "rotation", json!("signed cyclic permutation"), catch(|| AffFunc::rotation(rm.clone())), &|x| rm2.dot(&Array1::from(x.to_vec())).to_vec());
    // slice: every NaN pattern (dim <= 4), fixed values
    if dim <= 4 {
        for mask in 0..(1u32 << dim) {
            for vals in [[-0.5, 0.5, 1.5, 2.5], [0.0, -0.0, 1.0, 0.0], [2.0, 0.0, 0.0, -1.0]] {
                let refp: Vec<f64> = (0..dim).map(|j| if mask & (1 << j) != 0 { f64::NAN } else { vals[j] }).collect();
                let r2 = refp.clone();
                test(&mut out, "slice", json!(refp.iter().map(|t| t.to_string()).collect::<Vec<_>>()), catch(|| AffFunc::slice(&Array1::from(refp.clone()))), &|x| x.iter().zip(r2.iter()).map(|(a, b)| if b.is_nan() { *a } else { *b + 0.0 }).collect());
            }
        }
    }
    // translation: x + offset
    for s in 0..3 {
        let off: Vec<f64> = (0..dim).map(|j| ((j + s) % 3) as f64 - 1.0).collect();
        let o2 = off.clone();
        test(&mut out, "translation", json!(off), catch(|| AffFunc::translation(dim, Array1::from(off.clone()))), &|x| x.iter().zip(o2.iter()).map(|(a, b)| a + b).collect());
    }
    out
}

pub fn cases(tier: Tier) -> Vec<Case> {
    let mut v = vec![];
    // functions without inputs (R^0 -> R^r, constants) and without outputs (R^n -> R^0)
    {
        let z = |r: usize, c: usize, b0: f64| M { mat: vec![vec![0.0; c]; r], bias: (0..r).map(|i| b0 + i as f64).collect(), cols: c, fortran: false, mirrored: false };
        let zs = vec![z(1, 0, 1.0), z(2, 0, -1.0), z(2, 0, 3.0), z(0, 2, 0.0), z(0, 0, 0.0), z(0, 1, 0.0)];
        for f in &zs {
            v.push(Case::Single(f.clone()));
            for g in &zs {
                v.push(Case::Pair(f.clone(), g.clone()));
            }
        }
        // an ordinary function next to them (compose through R^0 is not possible, stack with zero rows is)
        let ord = M { mat: vec![vec![1.0, -2.0]], bias: vec![0.5], cols: 2, fortran: false, mirrored: false };
        v.push(Case::Pair(ord.clone(), z(0, 2, 0.0)));
        v.push(Case::Pair(z(0, 2, 0.0), ord));
    }
    // entries whose square underflows (2^-600) or overflows (2^600): they are non-zero all the same
    let (tiny, huge) = (2f64.powi(-600), 2f64.powi(600));
    for e in [tiny, -tiny, huge, f64::MIN_POSITIVE, -f64::MIN_POSITIVE] {
        for (mat, cols) in [
            (vec![vec![e]], 1usize),
            (vec![vec![1.0, 0.0, e]], 3),
            (vec![vec![0.0, e], vec![0.0, 0.0]], 2),
            (vec![vec![e, 1.0], vec![-e, 0.0]], 2),
            (vec![vec![0.0, 0.0, 1.0], vec![e, 0.0, 0.0]], 3),
        ] {
            let r = mat.len();
            v.push(Case::Single(M { mat, bias: vec![0.0; r], cols, fortran: false, mirrored: false }));
        }
    }
    let vals = [1.0, -1.0, 2.0, 0.5];
    let (nz_single, nz_pair) = match tier { Tier::Quick => (4, 2), Tier::Thorough => (5, 2) };
    let shapes: Vec<(usize, usize)> = vec![(1, 1), (1, 2), (2, 1), (2, 2), (1, 3), (3, 1), (2, 3), (3, 2), (3, 3)];
    for (r, c) in &shapes {
        let nz = if r * c >= 6 { nz_single.min(3) } else if r * c >= 4 { nz_single.min(4) } else { nz_single };
        for (i, m) in mats(*r, *c, &vals, nz).into_iter().enumerate() {
            if *r >= 2 && *c >= 2 && i % 3 == 0 {
                let mut f = m.clone();
                f.fortran = true;
                v.push(Case::Single(f));
            }
            if *r * *c >= 2 && i % 3 == 1 {
                let mut f = m.clone();
                f.mirrored = true;
                v.push(Case::Single(f));
            }
            v.push(Case::Single(m));
        }
    }
    // pairs: composition-compatible and same-shape
    let pair_shapes: Vec<((usize, usize), (usize, usize))> = match tier {
        Tier::Quick => vec![((1, 1), (1, 1)), ((1, 2), (2, 1)), ((2, 1), (1, 2)), ((2, 2), (2, 2)), ((1, 2), (2, 2)), ((2, 2), (2, 1)), ((3, 2), (2, 3)), ((1, 2), (1, 2)), ((2, 1), (2, 1))],
        Tier::Thorough => {
            let mut ps = vec![];
            for a in &shapes { for b in &shapes { if a.1 == b.0 || a == b || a.1 == b.1 { ps.push((*a, *b)); } } }
            ps
        }
    };
    for (a, b) in pair_shapes {
        let fa = mats(a.0, a.1, &vals, nz_pair);
        let gb = mats(b.0, b.1, &vals, nz_pair);
        for f in &fa {
            for g in &gb {
                v.push(Case::Pair(f.clone(), g.clone()));
            }
        }
        // dense divisors for div / rem
        if a == b {
            let dense = M { mat: (0..b.0).map(|i| (0..b.1).map(|j| [2.0, -1.0, 0.5, -2.0][(i + j) % 4]).collect()).collect(), bias: (0..b.0).map(|i| [1.0, -0.5, 2.0][i % 3]).collect(), cols: b.1, fortran: false, mirrored: false };
            for f in &fa {
                v.push(Case::Pair(f.clone(), dense.clone()));
            }
        }
        // structured operands: identity, shears (unit diagonal, zero bias, off-diagonal entry), permutations,
        // dense matrices - in row-major and column-major storage, on either side
        let structured = |r: usize, c: usize| -> Vec<M> {
            let mut out = vec![];
            let dense = |s: usize| M { mat: (0..r).map(|i| (0..c).map(|j| [2.0, -1.0, 0.5, 1.0, -2.0][(i * 2 + j + s) % 5]).collect()).collect(), bias: (0..r).map(|i| [1.0, -0.5, 0.0][(i + s) % 3]).collect(), cols: c, fortran: false, mirrored: false };
            out.push(dense(0));
            out.push(dense(1));
            if r == c {
                let eye = |off: Option<(usize, usize, f64)>, bias: f64| {
                    let mut m = vec![vec![0.0; c]; r];
                    for i in 0..r { m[i][i] = 1.0; }
                    if let Some((i, j, v)) = off { m[i][j] = v; }
                    M { mat: m, bias: vec![bias; r], cols: c, fortran: false, mirrored: false }
                };
                out.push(eye(None, 0.0));
                out.push(eye(None, 1.0));
                if r >= 2 {
                    out.push(eye(Some((0, 1, 2.0)), 0.0));
                    out.push(eye(Some((1, 0, -1.0)), 0.0));
                    out.push(eye(Some((r - 1, 0, 0.5)), 0.0));
                    let mut p = vec![vec![0.0; c]; r];
                    for i in 0..r { p[i][(i + 1) % c] = 1.0; }
                    out.push(M { mat: p, bias: vec![0.0; r], cols: c, fortran: false, mirrored: false });
                }
            }
            let mut all = out.clone();
            for m in out { let mut f = m.clone(); f.fortran = true; all.push(f); let mut g = m; g.mirrored = true; all.push(g); }
            all
        };
        let sa = structured(a.0, a.1);
        let sb = structured(b.0, b.1);
        for f in &sa {
            for g in &sb {
                v.push(Case::Pair(f.clone(), g.clone()));
            }
        }
        for f in fa.iter().take(40) {
            for g in &sb { v.push(Case::Pair(f.clone(), g.clone())); }
        }
        for g in gb.iter().take(40) {
            for f in &sa { v.push(Case::Pair(f.clone(), g.clone())); }
        }
    }
    for d in 1..=5 {
        v.push(Case::Constructors(d));
    }
    v
}

pub fn run(tier: Tier) -> Report {
    let mut rep = Report::new("C16", tier, "exploration");
    let cs = cases(tier);
    let total = par_cases(&cs, |_, c| match c {
        Case::Pair(f, g) => check_pair(f, g),
        Case::Single(f) => check_single(f),
        Case::Constructors(d) => check_constructors(*d),
    });
    rep.set("cases_total", cs.len() as u64);
    if let Some(Case::Pair(f, g)) = cs.iter().find(|c| matches!(c, Case::Pair(a, _) if a.mat.len() == 2 && a.cols == 2 && a.bias[0] != 0.0)) {
        rep.samples.push(json!({"f": f.json(), "g": g.json()}));
    }
    rep.absorb(total);
    let nt = rep.coverage.get("cases").and_then(|v| v.as_u64()).unwrap_or(0);
    rep.set("distinct_nontrivial", nt.saturating_sub(cs.iter().filter(|c| matches!(c, Case::Single(m) if m.mat.iter().flatten().all(|x| *x == 0.0) && m.bias.iter().all(|x| *x == 0.0))).count() as u64));
    rep.set("rule", "matrices/biases of every shape in {1,2,3}^2 with at most k non-zero entries over {+-1,2,0.5}; pairs for compose (inner dimensions agree), stack (input dimensions agree) and the element-wise operators (equal shapes, six ownership variants each; dense divisors for / and %); constructors for dims 1..5 with every index argument incl. left == right, every NaN pattern for slice; non-trivial = not the all-zero function; distinct because enumerated without repetition");
    rep.set("bound", match tier {
        Tier::Quick => "singles: <= 4 non-zero entries (3 for 6+ slots); pairs: <= 2 non-zero entries each over 9 shape pairs",
        Tier::Thorough => "singles: <= 5 non-zero entries (4 for 4-5 slots, 3 for 6+ slots); pairs over every compatible shape pair",
    });
    rep.assume("affine identities are decided on coefficients with exact rationals; apply()/apply_transpose() additionally evaluated on a 5^n lattice; constructors compared on the origin, all unit vectors and two generic points (decides an affine map)");
    rep
}
