//! Exact reading of real `AffTree` objects (DESIGN 3.2): arena snapshot,
//! reference routing on the snapshot, path polytopes, and conformance of the
//! reading with the real evaluator.

use crate::q::{dot, Q};
use crate::regions::{AffMap, Form, Side};
use affinitree::pwl::afftree::AffTree;
use affinitree::pwl::node::NodeState;
use ndarray::Array1;
use std::collections::BTreeMap;

#[derive(Clone, Debug, PartialEq, Eq)]
pub enum SState {
    Indet,
    Infeasible,
    Feasible,
    Witness(Vec<Vec<Q>>),
}

#[derive(Clone, Debug, PartialEq, Eq)]
pub struct SNode {
    pub parent: Option<usize>,
    pub children: Vec<Option<usize>>,
    pub isleaf: bool,
    pub mat: Vec<Vec<Q>>,
    pub ncols: usize,
    pub bias: Vec<Q>,
    pub state: SState,
}

impl SNode {
    pub fn amap(&self) -> AffMap {
        AffMap { m: self.mat.clone(), c: self.bias.clone() }
    }
    pub fn n_children(&self) -> usize {
        self.children.iter().filter(|c| c.is_some()).count()
    }
}

#[derive(Clone, Debug, PartialEq, Eq)]
pub struct Snap {
    pub k: usize,
    pub in_dim: usize,
    pub root: usize,
    pub nodes: BTreeMap<usize, SNode>,
    /// non-finite numbers met while reading the arena (read as 0); a well-formed tree has none
    pub nonfinite: Vec<String>,
}

pub fn arr2_to_q(m: &ndarray::Array2<f64>) -> Vec<Vec<Q>> {
    m.outer_iter().map(|r| r.iter().map(|x| Q::from_f64(*x)).collect()).collect()
}
pub fn arr1_to_q(m: &ndarray::Array1<f64>) -> Vec<Q> {
    m.iter().map(|x| Q::from_f64(*x)).collect()
}

pub fn snap<const K: usize>(t: &AffTree<K>) -> Snap {
    let mut nodes = BTreeMap::new();
    let mut nonfinite: Vec<String> = vec![];
    for (idx, nd) in t.tree.node_iter() {
        let mut safe = |x: f64, what: &str| -> Q {
            if x.is_finite() {
                Q::from_f64(x)
            } else {
                if nonfinite.len() < 4 {
                    nonfinite.push(format!("node {idx}: {what} contains {x}"));
                }
                Q::ZERO
            }
        };
        let st = match &nd.value.state {
            NodeState::Indeterminate => SState::Indet,
            NodeState::Infeasible => SState::Infeasible,
            NodeState::Feasible => SState::Feasible,
            NodeState::FeasibleWitness(w) => SState::Witness(w.iter().map(|p| p.iter().map(|x| safe(*x, "cached witness")).collect()).collect()),
        };
        nodes.insert(
            idx,
            SNode {
                parent: nd.parent,
                children: nd.children.to_vec(),
                isleaf: nd.isleaf,
                mat: nd.value.aff.mat.outer_iter().map(|r| r.iter().map(|x| safe(*x, "matrix")).collect()).collect(),
                ncols: nd.value.aff.mat.shape()[1],
                bias: nd.value.aff.bias.iter().map(|x| safe(*x, "bias")).collect(),
                state: st,
            },
        );
    }
    Snap { k: K, in_dim: t.in_dim, root: t.tree.get_root_idx(), nodes, nonfinite }
}

#[derive(Clone, Debug)]
pub struct Route {
    pub terminal: usize,
    pub labels: Vec<usize>,
    pub nodes: Vec<usize>,
}

impl Snap {
    pub fn node(&self, i: usize) -> &SNode {
        &self.nodes[&i]
    }

    /// Documented semantics: row i satisfied <=> a_i.y - b_i <= 0, label = sum 2^i [row i satisfied],
    /// missing child => undefined.  `pre` maps the explorer's x to this tree's input y.
    pub fn route(
        &self,
        pre: &AffMap,
        n_x: usize,
        x: &[Q],
        guards: &mut Vec<Form>,
    ) -> Result<Option<(Route, AffMap)>, String> {
        let y = pre.apply(x);
        if y.len() != self.in_dim {
            return Err(format!("input dimension {} but tree in_dim {}", y.len(), self.in_dim));
        }
        let mut cur = self.root;
        let mut labels = vec![];
        let mut path = vec![cur];
        let mut steps = 0usize;
        loop {
            steps += 1;
            if steps > self.nodes.len() + 1 {
                return Err("cycle while routing".into());
            }
            let nd = self.nodes.get(&cur).ok_or_else(|| format!("dangling child index {cur}"))?;
            if nd.isleaf {
                if nd.ncols != y.len() {
                    return Err(format!("terminal {cur} has {} columns, input has {}", nd.ncols, y.len()));
                }
                let m = nd.amap().after(pre, n_x);
                return Ok(Some((Route { terminal: cur, labels, nodes: path }, m)));
            }
            if nd.ncols != y.len() {
                return Err(format!("decision {cur} has {} columns, input has {}", nd.ncols, y.len()));
            }
            let mut label = 0usize;
            for i in 0..nd.mat.len() {
                let g = pre.pull_form(&nd.mat[i], &(-nd.bias[i].clone()), n_x);
                let v = &dot(&nd.mat[i], &y) - &nd.bias[i];
                guards.push(g);
                if v.sign() <= 0 {
                    if i >= usize::BITS as usize - 1 {
                        return Err("too many rows".into());
                    }
                    label += 1 << i;
                }
            }
            if label >= self.k {
                return Err(format!("label {label} >= K={} at decision {cur}", self.k));
            }
            labels.push(label);
            match nd.children[label] {
                None => return Ok(None),
                Some(c) => {
                    cur = c;
                    path.push(c);
                }
            }
        }
    }

    /// decisions taken at x (node, label), also when the result is undefined
    pub fn decisions_at(&self, x: &[Q]) -> Result<Vec<(usize, usize)>, String> {
        let mut cur = self.root;
        let mut out = vec![];
        loop {
            if out.len() > self.nodes.len() {
                return Err("cycle while routing".into());
            }
            let nd = self.nodes.get(&cur).ok_or("dangling")?;
            if nd.isleaf {
                return Ok(out);
            }
            if nd.ncols != x.len() {
                return Err("dimension".into());
            }
            let mut label = 0usize;
            for i in 0..nd.mat.len() {
                if (&dot(&nd.mat[i], x) - &nd.bias[i]).sign() <= 0 {
                    label += 1 << i;
                }
            }
            if label >= self.k {
                return Err("label out of range".into());
            }
            out.push((cur, label));
            match nd.children[label] {
                None => return Ok(out),
                Some(c) => cur = c,
            }
        }
    }

    /// closed polytope of the route taken at x (binary trees): rows a.x <= b
    pub fn route_rows(&self, x: &[Q]) -> Result<Vec<(Vec<Q>, Q)>, String> {
        let mut rows = vec![];
        for (p, l) in self.decisions_at(x)? {
            let nd = &self.nodes[&p];
            if nd.mat.len() != 1 {
                return Err(format!("decision {p} has {} rows", nd.mat.len()));
            }
            if l == 1 {
                rows.push((nd.mat[0].clone(), nd.bias[0].clone()));
            } else {
                rows.push((nd.mat[0].iter().map(|v| -v).collect(), -nd.bias[0].clone()));
            }
        }
        Ok(rows)
    }

    pub fn route_plain(&self, x: &[Q]) -> Result<Option<(Route, AffMap)>, String> {
        let mut g = vec![];
        self.route(&AffMap::identity(self.in_dim), self.in_dim, x, &mut g)
    }

    /// (node, label) pairs from the root to `idx` (exclusive), via parent pointers
    pub fn path_to(&self, idx: usize) -> Result<Vec<(usize, usize)>, String> {
        let mut p = vec![];
        let mut cur = idx;
        let mut steps = 0;
        while let Some(par) = self.nodes.get(&cur).ok_or("missing node")?.parent {
            steps += 1;
            if steps > self.nodes.len() {
                return Err("parent cycle".into());
            }
            let pn = self.nodes.get(&par).ok_or("missing parent")?;
            let l = pn
                .children
                .iter()
                .position(|c| *c == Some(cur))
                .ok_or_else(|| format!("node {cur} not a child of its parent {par}"))?;
            p.push((par, l));
            cur = par;
        }
        p.reverse();
        Ok(p)
    }

    /// closed path polytope rows (a, b) meaning a.x <= b, binary trees with 1-row predicates:
    /// label 1 -> (a, b); label 0 -> (-a, -b)   [as PolyhedraGen reports it]
    pub fn path_rows(&self, idx: usize) -> Result<Vec<(Vec<Q>, Q)>, String> {
        let mut rows = vec![];
        for (p, l) in self.path_to(idx)? {
            let nd = &self.nodes[&p];
            if nd.mat.len() != 1 {
                return Err(format!("decision {p} has {} rows", nd.mat.len()));
            }
            match l {
                1 => rows.push((nd.mat[0].clone(), nd.bias[0].clone())),
                0 => rows.push((nd.mat[0].iter().map(|v| -v).collect(), -nd.bias[0].clone())),
                _ => return Err("label > 1 in binary path".into()),
            }
        }
        Ok(rows)
    }

    pub fn terminals(&self) -> Vec<usize> {
        self.nodes.iter().filter(|(_, n)| n.isleaf).map(|(i, _)| *i).collect()
    }

    pub fn to_json(&self) -> serde_json::Value {
        let nodes: Vec<serde_json::Value> = self
            .nodes
            .iter()
            .map(|(i, n)| {
                serde_json::json!({
                    "idx": i, "parent": n.parent, "children": n.children, "isleaf": n.isleaf,
                    "mat": n.mat.iter().map(|r| crate::q::fmt_vec(r)).collect::<Vec<_>>(),
                    "bias": crate::q::fmt_vec(&n.bias),
                    "state": match &n.state { SState::Indet => "indeterminate".to_string(), SState::Infeasible => "infeasible".into(), SState::Feasible => "feasible".into(), SState::Witness(w) => format!("witness x{}", w.len()) }
                })
            })
            .collect();
        serde_json::json!({"K": self.k, "in_dim": self.in_dim, "root": self.root, "nodes": nodes})
    }
}

/// implementation side: a single snapshot
pub struct TreeSide<'a>(pub &'a Snap);
impl Side for TreeSide<'_> {
    fn eval(&self, x: &[Q], guards: &mut Vec<Form>) -> Result<Option<AffMap>, String> {
        let n = self.0.in_dim;
        Ok(self.0.route(&AffMap::identity(n), n, x, guards)?.map(|(_, m)| m))
    }
}

/// sequential evaluation of several snapshots: last(...(first(x)))
pub struct PipeSide<'a>(pub Vec<&'a Snap>);
impl Side for PipeSide<'_> {
    fn eval(&self, x: &[Q], guards: &mut Vec<Form>) -> Result<Option<AffMap>, String> {
        let n = x.len();
        let mut cur = AffMap::identity(n);
        for s in &self.0 {
            match s.route(&cur, n, x, guards)? {
                None => return Ok(None),
                Some((_, m)) => cur = m,
            }
        }
        Ok(Some(cur))
    }
}

pub fn to_arr1(x: &[Q]) -> Option<Array1<f64>> {
    let mut v = Vec::with_capacity(x.len());
    for q in x {
        v.push(q.to_f64_exact()?);
    }
    Some(Array1::from(v))
}

/// Conformance of the snapshot reading with the real evaluator at a dyadic point.
/// Returns Ok(true) if a call was made and agreed, Ok(false) if the point is not
/// exactly representable, Err(description) on disagreement.
pub fn conform<const K: usize>(t: &AffTree<K>, s: &Snap, x: &[Q], exact_values: bool) -> Result<bool, String> {
    conform_opt(t, s, x, exact_values, true)
}

impl Snap {
    /// every stored number is a multiple of 2^-10 of magnitude at most 2^20: f64 evaluation of such a tree at a
    /// small dyadic point is exact, so values may be compared bit for bit
    pub fn is_small_dyadic(&self) -> bool {
        let ok = |v: &Q| match v {
            Q::S(n, d) => *d <= 1024 && (*d as u128).is_power_of_two() && n.abs() <= (1i128 << 20) * *d,
            _ => false,
        };
        self.nodes.values().all(|n| n.mat.iter().flatten().all(ok) && n.bias.iter().all(ok))
    }
}

/// Conformance at the witness of a face and, for every hyperplane the face lies on, at points
/// 2^-30 and 2^-40 to either side of it (distances far below the library's 1e-8 containment
/// tolerance) and, for axis-parallel hyperplanes, at the neighbouring floating-point numbers:
/// the real evaluator must take the documented branch there too.
pub fn conform_face<const K: usize>(t: &AffTree<K>, s: &Snap, face: &crate::regions::Face, exact_values: bool) -> (u64, Option<String>) {
    let mut n = 0u64;
    let mut err = None;
    match conform(t, s, &face.w, exact_values) {
        Ok(true) => n += 1,
        Ok(false) => {}
        Err(e) => err = Some(e),
    }
    // Probes are only made where the real f64 evaluation is exact: every decision coefficient a
    // multiple of 1/4 with |a| <= 4, every decision bias and witness coordinate a multiple of 1/4 with
    // |.| <= 64 resp. 16. Then every partial sum a.x - b at a probe point needs < 53 bits.
    let small = |v: &Q, lim: i64| -> bool {
        match v {
            Q::S(n, d) => (*d == 1 || *d == 2 || *d == 4) && n.abs() <= (lim as i128) * (*d),
            _ => false,
        }
    };
    let safe = s.nodes.values().filter(|n| !n.isleaf).all(|n| n.mat.iter().flatten().all(|v| small(v, 4)) && n.bias.iter().all(|v| small(v, 64)))
        && face.w.iter().all(|v| small(v, 16));
    if !safe {
        return (n, err);
    }
    for (f, sgn) in &face.cons {
        if *sgn != 0 {
            continue;
        }
        if !f.a.iter().all(|v| small(v, 4)) {
            continue;
        }
        // move along one coordinate so that the form changes by exactly +-delta
        let j = match f.a.iter().position(|v| *v == Q::ONE || *v == Q::int(-1)).or_else(|| f.a.iter().position(|v| !v.is_zero())) {
            Some(j) => j,
            None => continue,
        };
        for e in [30i32, 40] {
            for sg in [1i64, -1] {
                let delta = &Q::frac(sg, 1i64 << e) / &f.a[j];
                let mut p = face.w.clone();
                p[j] = &p[j] + &delta;
                match conform_opt(t, s, &p, false, false) {
                    Ok(true) => n += 1,
                    Ok(false) => {}
                    Err(e) => err = Some(format!("near the boundary (x = {:?}): {e}", p.iter().map(|q| q.to_f64()).collect::<Vec<_>>())),
                }
            }
        }
    }
    // One unit in the last place beyond the hyperplane (2^-100 when the coordinate is 0). The sign of the real f64
    // residual is provably that of the exact one when every row that uses the moved coordinate j has no other
    // non-zero coefficient and a power of two as coefficient: c*x_j is exact and fl(u - b) has the sign of u - b;
    // rows that do not use j see unchanged operands (exact by the guard above).
    let pow2 = |v: &Q| -> bool { [4i64, 2, 1].iter().any(|k| *v == Q::int(*k) || *v == Q::int(-*k)) || [2i64, 4].iter().any(|d| *v == Q::frac(1, *d) || *v == Q::frac(-1, *d)) };
    for (f, sgn) in &face.cons {
        if *sgn != 0 {
            continue;
        }
        let nz: Vec<usize> = (0..f.a.len()).filter(|i| !f.a[*i].is_zero()).collect();
        if nz.len() != 1 || !pow2(&f.a[nz[0]]) {
            continue;
        }
        let j = nz[0];
        let rows_ok = s.nodes.values().filter(|n| !n.isleaf).all(|n| {
            n.mat.iter().all(|row| row[j].is_zero() || (pow2(&row[j]) && row.iter().enumerate().all(|(i, v)| i == j || v.is_zero())))
        });
        if !rows_ok {
            continue;
        }
        let wj = face.w[j].to_f64();
        for up in [true, false] {
            let pj = if wj == 0.0 { if up { 2f64.powi(-100) } else { -(2f64.powi(-100)) } } else if up { wj.next_up() } else { wj.next_down() };
            let mut p = face.w.clone();
            p[j] = Q::from_f64(pj);
            match conform_opt(t, s, &p, false, false) {
                Ok(true) => n += 1,
                Ok(false) => {}
                Err(e) => err = Some(format!("one unit in the last place beside the boundary (x[{j}] = {:e}, neighbour of {wj}): {e}", pj)),
            }
        }
    }
    (n, err)
}

/// `values`: compare the output values as well (otherwise only definedness and the label sequence)
pub fn conform_opt<const K: usize>(t: &AffTree<K>, s: &Snap, x: &[Q], exact_values: bool, values: bool) -> Result<bool, String> {
    let xf = match to_arr1(x) {
        Some(v) => v,
        None => return Ok(false),
    };
    if xf.iter().any(|v| v.abs() > 1e6 || (values && *v != 0.0 && v.abs() < 1e-6)) {
        return Ok(false);
    }
    let mine = s.route_plain(x);
    let real = std::panic::catch_unwind(std::panic::AssertUnwindSafe(|| {
        t.find_terminal(t.tree.get_root(), &xf).map(|(nd, labels)| {
            let val = nd.value.aff.apply(&xf);
            (labels, val)
        })
    }));
    let real_eval = std::panic::catch_unwind(std::panic::AssertUnwindSafe(|| t.evaluate(&xf)));
    // the same input stored with stride -1 (an owned array after invert_axis): equal as an array, so it must be
    // routed and mapped identically
    if xf.len() >= 2 {
        let mut rev = ndarray::Array1::from(xf.iter().rev().cloned().collect::<Vec<f64>>());
        rev.invert_axis(ndarray::Axis(0));
        debug_assert_eq!(rev, xf);
        let r2 = std::panic::catch_unwind(std::panic::AssertUnwindSafe(|| (t.find_terminal(t.tree.get_root(), &rev).map(|(_, labels)| labels), t.evaluate(&rev))));
        let r1 = std::panic::catch_unwind(std::panic::AssertUnwindSafe(|| (t.find_terminal(t.tree.get_root(), &xf).map(|(_, labels)| labels), t.evaluate(&xf))));
        match (r1, r2) {
            (Ok(a), Ok(b)) if a == b => {}
            (Err(_), Err(_)) => {}
            (a, b) => return Err(format!("the input stored with stride -1 is treated differently: {:?} vs {:?} for the standard layout", b.ok(), a.ok())),
        }
    }
    match (mine, real) {
        (Err(e), Err(_)) => {
            let _ = e;
            Ok(true)
        }
        (Err(e), Ok(r)) => Err(format!("snapshot routing fails ({e}) but real find_terminal returned {:?}", r.map(|x| x.0))),
        (Ok(m), Err(_)) => Err(format!("real find_terminal panicked, snapshot routing gives {:?}", m.map(|x| x.0.labels))),
        (Ok(None), Ok(None)) => match real_eval {
            Ok(None) => Ok(true),
            _ => Err("evaluate disagrees with find_terminal (None)".into()),
        },
        (Ok(Some((r, m))), Ok(Some((labels, val)))) => {
            if r.labels != labels {
                return Err(format!("label sequence: snapshot {:?} vs real {:?}", r.labels, labels));
            }
            let exp = m.apply(x);
            if exp.len() != val.len() {
                return Err("output length differs".into());
            }
            if !values {
                return Ok(true);
            }
            for (e, v) in exp.iter().zip(val.iter()) {
                let ef = e.to_f64();
                let ok = if exact_values { Q::from_f64(*v) == *e } else { (ef - v).abs() <= 1e-9 * (1.0 + ef.abs()) };
                if !ok {
                    return Err(format!("value: snapshot {} vs real {}", e, v));
                }
            }
            match real_eval {
                Ok(Some(v2)) if v2 == val => Ok(true),
                _ => Err("evaluate disagrees with find_terminal".into()),
            }
        }
        (Ok(a), Ok(b)) => Err(format!(
            "definedness: snapshot {:?} vs real {:?}",
            a.map(|x| x.0.labels),
            b.map(|x| x.0)
        )),
    }
}
