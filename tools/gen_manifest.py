#!/usr/bin/env python3
"""Regenerates /verif/MANIFEST.json from the table below (run from /verif)."""
import json, os, sys

ROOT = os.path.dirname(os.path.dirname(os.path.abspath(__file__)))

sys.path.insert(0, os.path.join(ROOT, "tools"))
from manifest_table import P

def main():
    extra = {}
    p = os.path.join(ROOT, "tools", "manifest_table.json")
    if os.path.exists(p):
        extra = json.load(open(p))
    checks, na = [], []
    for pid in sorted(P):
        built, cat, tech, text, note, ref = P[pid]
        if pid in extra:
            e = extra[pid]
            built, cat, tech, text, note = e["built"], e["category"], e["technique"], e["text"], e["note"]
        if not built:
            na.append({"property_id": pid, "reason": "check not built yet (planned: DESIGN.md section %s); nothing is claimed for it so far" % ref})
            continue
        checks.append({
            "property_id": pid,
            "quick_cmd": "./check %s quick" % pid,
            "thorough_cmd": "./check %s thorough" % pid,
            "evidence_file": "/verif/evidence/%s.json" % pid,
            "engine": "affmc",
            "replay_cmd_template": "./check replay {path}",
            "level_claimed": {"category": cat, "text": text, "design_ref": "DESIGN.md section %s" % ref},
            "level_note": note,
            "technique": tech,
        })
    hooks_commits = []
    hp = os.path.join(ROOT, "tools", "hook_commits.txt")
    if os.path.exists(hp):
        hooks_commits = [l.strip() for l in open(hp) if l.strip()]
    m = {
        "version": 1,
        "setup_cmd": "./check build && ./check selftest quick",
        "hooks": {
            "guard": "cfg(affinitree_verif)",
            "enable": "RUSTFLAGS=--cfg affinitree_verif via /verif/mc/.cargo/config.toml (the engine crate depends on /repo by path, so every check rebuilds /repo's working tree with the hook on)",
            "baseline_off_cmd": "cd /repo && cargo test --workspace --no-fail-fast --offline",
            "source_commits": hooks_commits,
            "add_only": True,
        },
        "engines": [{
            "name": "affmc",
            "path": "/verif/mc",
            "serves_properties": [c["property_id"] for c in checks],
            "kind_free_text": "Rust explorer driving the real affinitree code: bounded exhaustive enumeration of programs / histories / fault plans, exact-rational face enumeration of the input space (region refinement), explicit-state BFS over operation histories; stateright as second explorer for the arena state machine",
        }],
        "checks": checks,
        "not_applicable": na,
        "notes": "All checks: ./check <ID> <quick|thorough>; exit 0 held / 1 VIOLATION / >=2 machinery failure. known_findings.json is read-only at run time. See DESIGN.md.",
    }
    json.dump(m, open(os.path.join(ROOT, "MANIFEST.json"), "w"), indent=1)
    print("MANIFEST.json: %d checks, %d not_applicable" % (len(checks), len(na)))

main()
