#!/usr/bin/env python3
"""Copies the independently produced, confirmed changes from /tmp/seed_cNN into /verif/seeded/<id>/
(patch.diff, demo.rs, meta.json) and writes /verif/mutation_log.md."""
import json, os, re, shutil

ROOT = "/verif"
# (seed, property, short description, what it needs, caught by (quick tier), note on strengthening)
T = [
 ("c01-1", "C01", "is_edge_feasible accepts an Optimal answer only if contains(solution)", "an argmax/class head grafted below a non-root node and an LP vertex that misses the 1e-8 tolerance (weights >= 1e4), or a perturbed solver point", ["C11"], "C01/C03 do not catch it: the trigger is a numerical inaccuracy of minilp on badly scaled rows, outside the dyadic alphabets; the fault plan of C11 (Perturbed witness at the LP call of the head) reaches the same branch"),
 ("c01-2", "C01", "apply_func_at_node shortcut for identity terminals ignores the bias", "a first linear layer with identity weights and non-zero bias followed by another linear layer", ["C01"], ""),
 ("c02-1", "C02", "enumeration position used as edge label when grafting", "a partial right operand with a gap below an existing child (only child on label 1; K=4 children {0,3})", ["C02"], ""),
 ("c02-2", "C02", "operands of update_terminal swapped for a leaf-rooted right operand", "right operand that is a single terminal with a non-commuting map (also apply_func equivalence)", ["C02"], ""),
 ("c03-1", "C03", "keep-last-child rule tests label+1 == K instead of the position", "pruning variant + partial operand whose only child hangs on label 0 + infeasible under a non-root terminal", ["C03", "C04", "C07"], "missed at first: all partial operands of the C03 alphabet had their only child on label 1; label-0-only user trees were added (C03/C04/C05/C11 share the alphabet)"),
 ("c03-2", "C03", "nodes with a cached Infeasible state are removed on the spot", "partial tree whose decision keeps an infeasible only child + a second elimination run", ["C03", "C04", "C01"], ""),
 ("c04-1", "C04", "keep-last-child rule rewritten as skipped_children + 1 == K", "pruned composition with a from_poly(.., None) operand grafted on a non-root terminal where the operand's path is infeasible", ["C04", "C03"], ""),
 ("c04-2", "C04", "root shortcut of is_edge_feasible tests the child instead of the parent", "pruned composition / tree operator onto a root terminal that is a non-zero constant", ["C04", "C03"], ""),
 ("c05-1", "C05", "phase_two caches the rejected LP point instead of the repaired one", "the witness-repair branch (solver point outside the polytope)", ["C05", "C11"], "missed by C05 at first (minilp never returns a rejected point on the dyadic alphabets): C05 now drives the repair branch with every single witness fault at every LP call"),
 ("c05-2", "C05", "mirror_points accepts normalised distances >= -1e-8", "start point / parent witness less than 1e-8 outside a row with norm > 1", ["C05"], "C11 reported it too while its programs were every k-th history of the thorough C03 space; with the present stride through the quick space only C05 does"),
 ("c06-1", "C06", "depth-1 nodes skip the LP and get a closed-form witness", "root predicate with an all-zero normal and non-zero bias (NaN witness, empty child cached as feasible)", ["C06", "C01", "C04"], "at first the engine itself panicked on the NaN witness (exit 101, no verdict): the snapshot reader now records non-finite stored values and every well-formedness / cache check reports them"),
 ("c06-2", "C06", "grafted nodes copy the right operand's cached feasibility state", "a right operand that was itself eliminated before the composition", ["C06", "C05", "C04"], "missed at first: right operands were always fresh; operands 'after their own infeasible_elimination' were added to the shared alphabet"),
 ("c07-1", "C07", "keep-last-child rule tests label+1 == K", "tree arithmetic with a partial right operand whose only child hangs on label 0", ["C07"], ""),
 ("c07-2", "C07", "&a op b forwards to b op a", "borrowed-left / owned-right variant with - or /", ["C07"], ""),
 ("c08-1", "C08", "reduce skips a decision only if both children are decisions", "a terminal whose affine function equals the predicate of its sibling decision", ["C08"], "missed at first: no terminal map of the alphabet equalled a predicate; a second enumeration with predicate-equal terminals was added"),
 ("c08-2", "C08", "reduce walks the arena in reverse index order instead of reversed BFS order", "re-used arena index so that a child has a smaller index than its parent + cascading merge", ["C08"], ""),
 ("c09-1", "C09", "DfsPre counts empty child slots as remaining siblings", "partial tree with a missing branch above an existing child", ["C09", "C13"], ""),
 ("c09-2", "C09", "evaluate_decision uses <= 1e-8 instead of <= 0", "inputs 0 < a.x-b <= 1e-8 beyond a hyperplane", ["C09", "C02", "C17", "C08"], "missed at first: one witness per face never lies that close to a hyperplane; conformance now also probes 2^-30 and 2^-45 to either side of every hyperplane a face lies on"),
 ("c10-1", "C10", "as_linprog skips a row equal to the preceding row without comparing the bias", "two adjacent rows with identical coefficients, the later one tighter", ["C10", "C15"], ""),
 ("c10-2", "C10", "early Infeasible for zero rows with bias <= 0 (should be < 0)", "a row 0 <= 0", ["C10", "C15"], "missed by C10 at first: the fat/thin classifier counted the tautology 0 <= 0 as 'no margin' and accepted either answer; zero rows are now ignored (b >= 0) or decide emptiness (b < 0)"),
 ("c11-1", "C11", "is_edge_feasible treats Unbounded as infeasible", "Unbounded fault at an LP call for a feasible edge of a pruned composition", ["C11"], ""),
 ("c11-2", "C11", "failed witness repair yields Infeasible instead of Indeterminate", "FarOff witness in a direction the 20 repair iterations cannot recover from, at a node without inherited witness", ["C11"], "the negative far-off kind FarOff(-1e2) was added to the fault alphabet afterwards; the quick tier already caught the change through fault pairs"),
 ("c12-1", "C12", "merge_child_with_parent removes the node before reading its child", "merge with a label that has no child on a non-root node with one child", ["C12"], ""),
 ("c12-2", "C12", "fast path for removing a leaf child skips the parent's isleaf update", "removing a terminal that is the last child of its parent", ["C12", "C13"], ""),
 ("c13-1", "C13", "DfsPre enumerates before filtering empty slots", "node with an existing child below an empty slot", ["C13", "C09"], ""),
 ("c13-2", "C13", "try_remove_child computes isleaf before clearing the slot", "a decision that loses all children through remove_child", ["C12", "C13"], "C13 missed it at first because its shape space skipped states that violate the C12 invariant; states whose only flaw is a stale leaf flag are now kept"),
 ("c14-1", "C14", "place_axis_bounds writes the infinite-upper placeholder into the lower row", "finite lower bound != -1 with infinite upper bound", ["C14"], "missed at first: the only such pair of the grid was (-1, +inf), exactly the value the slip produces; more bound pairs were added"),
 ("c14-2", "C14", "distance returns +inf for every zero-normal row", "zero row with negative bias (empty polytope)", ["C14"], ""),
 ("c15-1", "C15", "remove_tautologies treats |coefficient| <= epsilon as zero", "row whose coefficients are all tiny but not zero", ["C15"], "missed at first: no tiny coefficients in the grid; a grid with 2^-60 was added (it also exposed finding F20)"),
 ("c15-2", "C15", "remove_redundant_row_constraints drops zero rows without looking at the bias", "zero row with negative bias as last row", ["C15"], ""),
 ("c16-1", "C16", "AffFunc::subtraction assigns -1 to the right index (re-introduces F15)", "left == right", ["C16"], ""),
 ("c16-2", "C16", "remove_zero_rows tests the sum of a row instead of any non-zero entry", "a row whose coefficients cancel exactly and whose bias is zero", ["C16", "C15"], ""),
 ("c17-1", "C17", "second decision of partial_hard_shrink rewritten as x <= -lambda with swapped children", "input exactly at x = -lambda, lambda > 0", ["C17"], ""),
 ("c17-2", "C17", "remove_axes iterates arena slots 0..len() instead of the tree", "from_slice, un-pruned compose, infeasible_elimination (arena with holes), then remove_axes", ["C17", "C04"], "missed by C17 at first (C04 caught it): the slice cases now also run an elimination between compose and remove_axes"),
 ("c18-1", "C18", "Architecture::argmax checks the width of the network input instead of the current width", "input width and current width on different sides of 2", ["C18"], ""),
 ("c18-2", "C18", "read_layers no longer sorts the entry names", "an npz archive whose entries are not stored in index order", ["C18"], ""),
 ("c19-1", "C19", "tautology glyph chosen by the sign bit of the bias", "all-zero row with bias -0.0 and simplify_tautologies", ["C19"], ""),
 ("c19-2", "C19", "write_children prints the rank among existing children instead of the edge label", "a node with a vacant lower label and an occupied higher one", ["C19"], ""),
]

T2 = [
 ("r2-c01-1", "C01", "pruning filter short-cuts predicates with an all-zero matrix using bias > 0 instead of >= 0", "a head grafted below a region where two logits are the same affine function (predicate 0 <= 0), not at the root", ["C01", "C03"], ""),
 ("r2-c01-2", "C01", "adjacent identical activation layers are de-duplicated (\"clamping activations are idempotent\")", "HardSigmoid(i) listed twice in a row", ["C01"], "missed at first: no network listed the same activation twice; families with repeated activations were added"),
 ("r2-c02-1", "C02", "update_decision drops all-zero rows of the grafted predicate", "terminal of f whose image is parallel to and exactly on a hyperplane of g (also shifts the bits of two-row predicates)", ["C02"], ""),
 ("r2-c02-2", "C02", "AffFunc::compose returns self when the inner map has unit diagonal and zero bias", "a shear terminal (unit diagonal, off-diagonal entry) in f", ["C02", "C16"], "missed at first by C02 and C16: no shear in either alphabet; shear terminals (C02) and structured operands (C16: identity, shears, permutations, dense) were added"),
 ("r2-c03-1", "C03", "is_edge_feasible caches the parent path by arena index", "partial operand with a single-child decision, a forwarding that frees an index and its re-use below the next terminal", ["C03", "C07"], "missed by C03 at first (C07 caught it): the operand alphabet had no single-child decision above a full decision; added"),
 ("r2-c03-2", "C03", "skipped-children counter hoisted to the per-terminal scope", "partial operand with a single-child decision visited after exactly one pruned edge below the same terminal", ["C03", "C07"], ""),
 ("r2-c04-1", "C04", "composition skips terminals whose cached state is Infeasible", "kept infeasible last child + elimination before a composition that changes the output dimension", ["C04"], ""),
 ("r2-c04-2", "C04", "kept last child loses its descendants (remove_all_descendants before continue)", "infeasible only child that is itself a decision", ["C04", "C03"], ""),
 ("r2-c05-1", "C05", "nodes grafted below an identity terminal copy the operand's cached state", "operand with cached witnesses composed onto an identity terminal below excluding decisions", ["C05", "C06"], ""),
 ("r2-c05-2", "C05", "remove_axes keeps projected witnesses at nodes whose own matrix is zero on the removed axes", "ancestor predicate that uses the removed axis", ["C05"], ""),
 ("r2-c06-1", "C06", "new phase: a half-space parallel to the parent's edge takes over the parent's state, with the bound comparison flipped", "two consecutive decisions with identical normals, the tighter branch empty because of an older ancestor (hard tanh after ReLU)", ["C06"], ""),
 ("r2-c06-2", "C06", "witness inheritance accepts a relative tolerance of 1e-8", "offsets of about 1000 and a region empty by a gap between 1e-8 and 1e-5", ["C06"], "missed at first: nothing far from the origin in the alphabet; pairs of nearly coincident parallel facets at offsets 128 / 1024 with gaps 2^-17..2^-10 were added"),
 ("r2-c07-1", "C07", "is_edge_feasible decides from the parent's cached witnesses alone", "left operand that went through infeasible_elimination before the arithmetic", ["C07", "C03"], ""),
 ("r2-c07-2", "C07", "in-place fast path of the AffFunc operators pairs entries in memory order", "one operand matrix column-major, at least 2x2", ["C07", "C16"], "missed at first: every matrix was built row-major; a column-major build of every operand was added as a fourth storage layout (C02, C07, C08, C16, C19; C10 re-runs systems with column-major matrices)"),
 ("r2-c08-1", "C08", "PartialEq of affine functions compares as_slice() (None == None for column-major)", "two different column-major sibling terminals of at least 2x2", ["C08"], "missed at first: see r2-c07-2; 2x2 terminals and the column-major layout were added to C08"),
 ("r2-c08-2", "C08", "reduce compares the whole node content, cached state included", "infeasible_elimination before reduce leaves different witnesses on equal siblings", ["C08"], "missed at first: reduce was only applied to fresh trees; every fifth tree (and every tower) is now eliminated first"),
 ("r2-c09-1", "C09", "path_to_node refuses parents whose index is not smaller than the child's", "re-used arena index below a higher-indexed node", ["C09", "C13"], ""),
 ("r2-c09-2", "C09", "DfsPre::skip_subtree no longer clears last_push", "skip_subtree twice for the same inner node", ["C09", "C13"], ""),
 ("r2-c10-1", "C10", "as_linprog reads the matrix in memory order", "polytope matrix stored column-major, at least 2x2", ["C10"], "missed at first: see r2-c07-2"),
 ("r2-c10-2", "C10", "early Unbounded when A c >= 0 (should be > 0 / needs feasibility)", "empty polytope whose infeasible core is orthogonal to the objective", ["C10"], ""),
 ("r2-c11-1", "C11", "keep-last-child test moved to scheduling time", "Error or Unbounded fault at the LP call of an inner decision on an infeasible path with two children", ["C11"], ""),
 ("r2-c11-2", "C11", "repaired witness: the solver's original point is cached", "Perturbed fault that mirror_points can repair", ["C11", "C05"], ""),
 ("r2-c12-1", "C12", "remove_all_descendants sweeps the arena linearly", "re-used index so that a descendant has a smaller index than its ancestor", ["C12"], ""),
 ("r2-c12-2", "C12", "merge_child_with_parent writes the child's parent link before the root is refused", "merge on the root with exactly one child at the label", ["C12"], ""),
 ("r2-c13-1", "C13", "Bfs::next returns early for terminals without clearing last_push", "skip_subtree directly after a terminal while an earlier node's children are queued", ["C13"], ""),
 ("r2-c13-2", "C13", "Tree::depth computed in one pass over the arena in index order", "re-used index: child stored before its parent on the longest path", ["C13"], ""),
 ("r2-c14-1", "C14", "intersection treats an operand with an all-zero matrix as neutral", "Polytope::empty (0 <= -1) as one operand", ["C14"], ""),
 ("r2-c14-2", "C14", "apply_post skips the offset when bias.sum() == 0", "non-zero offset whose entries cancel", ["C14"], "missed at first: no such offset in the lattice; added"),
 ("r2-c15-1", "C15", "remove_tautologies decides by is_sign_negative", "zero row with bias -0.0", ["C15"], "missed at first: no -0.0 in the grid; added"),
 ("r2-c15-2", "C15", "redundancy tolerance loosened from f64::EPSILON to 1e-6", "tight row shadowed by a row 5e-7 looser at a lower index", ["C15"], "missed at first: no nearly coincident rows in the grid; rows with a gap of 2^-21 were added"),
 ("r2-c16-1", "C16", "slice derives the kept axes from 'fixed value is zero'", "reference value exactly 0.0 or -0.0", ["C16"], "missed at first: fixed values of the grid were never zero; added"),
 ("r2-c16-2", "C16", "moved-left element-wise operators mix memory order and logical order", "moved left operand column-major, at least 2x2", ["C16", "C07"], "missed at first: see r2-c07-2"),
 ("r2-c17-1", "C17", "from_poly skips rows without coefficients", "all-zero row with negative bias that is not the first row", ["C17"], ""),
 ("r2-c17-2", "C17", "inf_norm turns a single bound into a symmetric interval", "only minimum or only maximum given", ["C17"], ""),
 ("r2-c18-1", "C18", "extract_range updates current_shape only for linear layers", "argmax as last shape-changing operator of the extracted range", ["C18"], ""),
 ("r2-c18-2", "C18", "read_layers takes the width from the last pushed layer", "two activation markers after the same linear layer", ["C18"], "missed at first: files had at most one marker per linear layer; files with two consecutive markers were added"),
 ("r2-c19-1", "C19", "Dot edge loop stops at the first empty child slot", "decision without a child on label 0 but with one on label 1", ["C19"], ""),
 ("r2-c19-2", "C19", "write_predicate prints only row 0", "K >= 3 tree with a two-row predicate through Display", ["C19"], "missed at first: only binary trees were rendered; K=4 trees were added to the Display check"),
]

T3 = [
 ("r3-c01-1", "C01", "evaluate_decision compares against 1e-8 instead of 0", "an input less than 1e-8 beyond a breakpoint", ["C01", "C17"], ""),
 ("r3-c01-2", "C01", "afftree_from_layers_generic normalises the rows of the precondition", "a precondition row that is not of unit length and an input on or next to that facet", ["C01"], ""),
 ("r3-c02-1", "C02", "update_decision skips the -A c correction when the entries of the terminal's offset sum to 0.0", "a terminal of f whose offset vector is non-zero but cancels in the sum, e.g. (1,-1), above a decision of g with A c != 0", ["C02"], "missed at first: no terminal of f had a cancelling offset vector; such terminals were added for the intermediate dimension 2"),
 ("r3-c02-2", "C02", "compose::<false, true> passes the pruning schema", "the progress-display variant without pruning and an infeasible branch of g below a terminal of f (or K = 4)", ["C02", "C04"], "missed at first: only compose::<_, false> was driven; the VERBOSE twin is now run next to the silent variant (C02: all pairs of trees with <= 3 nodes; C03: first operation; C04: first two operations) and must leave the identical arena"),
 ("r3-c03-1", "C03", "is_edge_feasible treats a predicate with an all-zero matrix as infeasible when bias > 0", "a grafted predicate 0 <= b with b > 0 (constant terminal above a decision)", ["C03", "C11"], ""),
 ("r3-c03-2", "C03", "infeasible_elimination tightens the path polytope by 1e-6 without normalising", "rows of norm about 1e-7 whose region is fat", ["C03", "C11"], ""),
 ("r3-c04-1", "C04", "lift_predicate copies the normal vectors when the terminal matrix has a unit diagonal, square or not", "a non-square terminal whose matrix is a rectangular identity", ["C04", "C03"], "C03 crashed (exit 101) instead of reporting: the unpruned reference track was itself malformed and the region explorer unwrapped its evaluation error; it now reports a RefError mismatch"),
 ("r3-c04-2", "C04", "the kept last child of a pruned decision is not pushed on the work stack", "a pruned composition that keeps an infeasible last child above further terminals", ["C04", "C03"], ""),
 ("r3-c05-1", "C05", "phase_inh lets a child inherit all witnesses when the new predicate has a zero direction", "a predicate with an all-zero matrix and negative bias below a witness", ["C05", "C11"], ""),
 ("r3-c05-2", "C05", "phase_inh hands down the parent's whole witness list when one point fits", "a cache holding at least two witnesses that a later predicate separates; the library only produces single-witness caches, a user can store several in the public state field", ["C05"], "missed at first: every history started from a constructor result; constructor results whose root cache holds 2-4 sample inputs (valid witnesses of the root) were added as non-initial states"),
 ("r3-c06-1", "C06", "phase_two drops zero rows before the LP", "a path with a row 0 <= b, b < 0, that makes the region empty", ["C06"], ""),
 ("r3-c06-2", "C06", "the LP is run on the polytope tightened by 1e-6", "a region thinner than 1e-6 but wider than the solver tolerance", ["C06", "C03"], ""),
 ("r3-c07-1", "C07", "the grafted copy of the right operand is attached at the running position instead of the label", "a partial right operand (missing label-0 child)", ["C07", "C02"], ""),
 ("r3-c07-2", "C07", "the lifted operators normalise the decisions they copy from the right operand", "a decision of the right operand whose row is not of unit length and whose scaled copy is not exact in f64, and an input on that hyperplane", ["C07"], "missed at first: every decision of the right operand normalised exactly ((1,1)/sqrt 2 scales row and bias alike); rows 3x <= 1 and x+2y <= 1 replaced two of them"),
 ("r3-c08-1", "C08", "reduce treats a decision with a single label-0 child as 'all children identical'", "a partial decision whose only child hangs on label 0", ["C08"], ""),
 ("r3-c08-2", "C08", "sibling terminals are compared with relative_eq instead of ==", "sibling terminals differing by at most f64::EPSILON absolutely or one unit in the last place", ["C08"], "missed at first: terminals differed by O(1); a family with biases 0 / 2^-60, coefficients 0 / 2^-60 and biases 1 / 1+2^-52 was added"),
 ("r3-c09-1", "C09", "PolyhedraGen::next pushes a predicate only if it differs from the top of its stack", "a child whose predicate equals its parent's (coincident predicates)", ["C09", "C13"], ""),
 ("r3-c09-2", "C09", "DfsPre::new and Bfs::new start with last_push = 1", "skip_subtree called before the first next()", ["C09", "C13"], "missed at first: skips were only placed after returned items; 'before the first next()' (once, twice, combined with every single later position) is now a skip position of the node traversals"),
 ("r3-c10-1", "C10", "chebyshev_center drops the row -r <= 0", "an empty polytope (negative radius is then optimal)", ["C10"], ""),
 ("r3-c10-2", "C10", "as_linprog bounds variables of all-zero columns to (0,0)", "an objective with a non-zero coefficient on an unconstrained coordinate", ["C10", "C15"], ""),
 ("r3-c11-1", "C11", "the witness check of phase_two is rewritten with f64::min, which drops NaN", "an 'optimal' point with NaN coordinates", ["C11", "C05"], "missed at first: the displaced points were all finite; FarOff(NaN) was added to the single-fault plans (FarOff(inf) was tried and withdrawn, see DESIGN.md)"),
 ("r3-c11-2", "C11", "is_edge_feasible drops an edge whose LP witness it cannot verify", "a displaced witness at an LP call of a pruned composition whose region has no interior, or a far-off witness", ["C11"], ""),
 ("r3-c12-1", "C12", "add_child_node inserts first and looks the parent up afterwards", "an invalid parent index equal to the slab's next vacant key", ["C12"], ""),
 ("r3-c12-2", "C12", "merge_child_with_parent computes the slot in the grandparent as 0/1", "K >= 3 and a merged node hanging on label >= 2", ["C12"], ""),
 ("r3-c13-1", "C13", "the upper size_hint is tightened by the start index", "an arena with holes or re-used indices and a traversal started below the root", ["C13"], ""),
 ("r3-c13-2", "C13", "skip_subtree truncates the stack and no longer resets last_push", "two skip_subtree calls in a row", ["C13", "C09"], ""),
 ("r3-c14-1", "C14", "intersection_n copies the operands' raw buffers", "a column-major operand of at least 2x2", ["C14"], "missed at first: C14 built every polytope row-major; every 2nd system with a matrix of at least 2x2 is now run once more with column-major polytopes, second operands and maps"),
 ("r3-c14-2", "C14", "apply_pre short-cuts maps with an identity matrix to translate(+d)", "a pure translation with non-zero offset", ["C14"], "missed at first: no map of the apply_pre alphabet was a pure translation; translations, the identity, a scaling and a rectangular identity were added"),
 ("r3-c15-1", "C15", "remove_duplicate_rows compares the biases of negligible rows with relative_eq", "two rows with identical negligible or zero coefficients whose biases differ by less than 2.2e-16, the tighter one later", ["C15"], "missed at first: tiny rows had biases of ordinary size; rows that are tiny as a whole (coefficients and biases +-2^-60) were added"),
 ("r3-c15-2", "C15", "remove_redundant_row_constraints returns the canonical empty set for a polytope without rows", "a polytope with zero rows, e.g. the result of a previous clean-up", ["C15"], "missed at first: no system without rows and no sequences of clean-up calls; both were added (every result of a first call is an input of every second call)"),
 ("r3-c16-1", "C16", "compose returns the inner map when the outer matrix is the identity, ignoring the outer offset", "an outer map that is a pure translation", ["C16"], ""),
 ("r3-c16-2", "C16", "remove_zero_columns removes a column and still advances the index", "two adjacent all-zero columns", ["C16"], ""),
 ("r3-c17-1", "C17", "evaluate_decision compares against f64::EPSILON instead of 0", "an input one unit in the last place beyond a breakpoint of magnitude below 2", ["C17", "C01"], "missed at first: the nearest probes were 2^-40 beside a hyperplane; probes at the neighbouring floating-point numbers were added for axis-parallel hyperplanes (where the sign of the real residual is provably exact)"),
 ("r3-c17-2", "C17", "from_poly normalises the rows of the polytope", "a row that is neither axis-parallel nor of unit length and a point on that facet", ["C17", "C01"], "missed by C17 at first (C01 caught it): every row of the from_poly alphabet normalised exactly; rows 3x <= 1, 3x+4y <= 5 and -x-2y <= 1 were added"),
 ("r3-c18-1", "C18", "a rejected Architecture::linear still overwrites current_shape", "a rejected layer whose output width differs from the current width, followed by further calls", ["C18"], ""),
 ("r3-c18-2", "C18", "extract_range takes the input shape of the range from its first operator", "a range starting exactly at an argmax / class-characterisation operator", ["C18"], ""),
 ("r3-c19-1", "C19", "DOT node statements are numbered by position instead of arena index", "an arena with a hole before a live node", ["C19"], ""),
 ("r3-c19-2", "C19", "row skipping stops at the first skipped row", "a skip_rows window with a finite upper bound below the row count", ["C19"], ""),
]

T4 = [
 ("r4-c01-1", "C01", "evaluate_decision takes the dot product over the input's memory-order slice", "an owned input array with stride -1 (after invert_axis), dimension >= 2", ["C01", "C09"], "same mechanism as r4-c09-1; missed at first: every input was a standard-layout array; conformance now also evaluates each input stored with stride -1"),
 ("r4-c01-2", "C01", "partial_leaky_ReLU decides on (1-alpha) x <= 0", "a slope greater than 1", ["C01", "C17"], "missed by C01 at first (C17 caught it): the slopes of the C01 alphabet were 0.5 and -1; 2.0 was added"),
 ("r4-c02-1", "C02", "the graft sweeps the decisions of g in arena index order and skips those whose parent has no image yet", "a right operand in which a decision is stored before its parent (re-used arena index), i.e. a decision at depth >= 2", ["C02"], "missed at first, two reasons: right operands had decisions at depth <= 1 only, and the 're-used indices' layout handed the freed slots out in ascending order after all. Deeper right operands were added, the layout now dissolves a decoy chain from the top so that every node is stored before its parent, and ./check selftest verifies the layouts' characteristics"),
 ("r4-c02-2", "C02", "single-coordinate predicates read 'row i' of the terminal matrix from its raw buffer", "a column-major terminal matrix of at least 2x2 in f", ["C02"], ""),
 ("r4-c03-1", "C03", "is_edge_feasible drops an edge whose LP witness it cannot verify", "coefficients of about 1e6 and a sharp wedge, so that the LP vertex misses the absolute 1e-8 tolerance and 20 mirror rounds do not repair it", ["C03", "C11"], "missed by C03 at first (C11 caught it through a displaced witness): a family of sharp wedges with rows scaled by up to 1e8, grafted below a non-root terminal, was added"),
 ("r4-c03-2", "C03", "&f op g (borrowed left, owned right) is evaluated as g op f", "that ownership variant with - or /", ["C07"], "not reported by C03: its reference track uses the same operator implementation, so both tracks change alike; operand order and ownership variants are C07's subject"),
 ("r4-c04-1", "C04", "composition classifies the nodes of the right operand in a table sized by len()", "a right operand with a freed slot below a live index (after its own pruning)", ["C04", "C03"], "missed at first: the 'eliminated' right operands of the alphabet had no infeasible path, hence no hole; an eliminated from_poly over an empty polytope was added"),
 ("r4-c04-2", "C04", "the keep-last rule is judged by label + 1 == K", "a grafted decision whose only child hangs on label 0, below an infeasible path", ["C04", "C03"], ""),
 ("r4-c05-1", "C05", "mirror_points accepts a candidate when the smallest slack (f64::min fold) is non-negative", "a NaN slack: NaN start coordinate", ["C05"], "missed at first: start points were finite; NaN start points were added (+-1e308 were tried and withdrawn, see DESIGN.md)"),
 ("r4-c05-2", "C05", "witnesses are taken from the closest ancestor when the parent is Feasible without witness", "a node in state Feasible (LP answered 'unbounded') above later nodes, and an ancestor witness on the other side of the skipped edge", ["C05", "C11"], "missed by C05 at first (C11 caught it): C05's fault stage now also injects Unbounded"),
 ("r4-c06-1", "C06", "remove_axes keeps cached witnesses restricted to the kept axes", "eliminate, remove_axes that empties a region on the slice, eliminate again", ["C06", "C05"], "missed by C06 at first (C05 caught it): remove_axes pipelines were added to C06"),
 ("r4-c06-2", "C06", "phase_inh hands down the parent's whole witness list (as r3-c05-2)", "a root cache with several witnesses", ["C06", "C05"], "missed by C06 at first (C05 caught it): roots seeded with several sample inputs were added to C06"),
 ("r4-c07-1", "C07", "unary_op_inplace visits 'for idx in 0..len()'", "a tree with holes and a terminal at an index >= len(), e.g. after infeasible_elimination", ["C07"], "missed at first: negation and the tree-affine forms only saw fresh trees; every 2nd such operand (negation: every one, both ways) now goes through infeasible_elimination first, in all storage layouts"),
 ("r4-c07-2", "C07", "path half-spaces are cached between is_edge_feasible calls, keyed by the parent's arena index", "an index freed by a forwarding and re-used under a kept-last node", ["C07", "C03"], ""),
 ("r4-c08-1", "C08", "reduce returns early unless two index-adjacent terminals are equal", "equal sibling terminals that are not neighbours among the terminals in arena order", ["C08"], "missed at first: in every layout siblings were stored next to each other; a fifth layout (level by level, highest label first) was added to all tree checks"),
 ("r4-c08-2", "C08", "sibling terminals are compared row by row with a truncating zip", "sibling terminals with different numbers of rows, one a prefix of the other", ["C08"], "missed at first: all terminals of a tree had one shape; a family with 0-, 1- and 2-row terminals was added (such trees can be built through the public node API)"),
 ("r4-c09-1", "C09", "evaluate_decision re-wraps the input through as_slice_memory_order", "an owned input with stride -1, dimension >= 2", ["C09", "C01"], "missed at first, see r4-c01-1"),
 ("r4-c09-2", "C09", "PolyhedraGen::skip_subtree also pops the current half-space", "skip_subtree twice at a node of depth >= 2 that still has a sibling to come", ["C09"], ""),
 ("r4-c10-1", "C10", "solve_linprog re-checks its optimal point with contains() and answers Infeasible otherwise", "rows scaled by 100 and more around a point 1e5 and more from the origin", ["C10"], "missed at first: the grid is small integers around the origin; a family of polytopes containing a unit ball, 2^14..2^20 from the origin with rows scaled by up to 1e6, was added (only the verdict is judged there)"),
 ("r4-c10-2", "C10", "chebyshev_center folds the row norm with hypot, seeded with the signed first entry", "input dimension 1 and a negative coefficient", ["C10"], ""),
 ("r4-c11-1", "C11", "after an 'unbounded' answer phase_two re-solves inside the box |x| <= 1e6 and marks the node infeasible if that fails", "an Unbounded fault at a node whose region lies beyond 1e6", ["C11"], "missed at first: all regions were near the origin; programs with thresholds 5e6 / 7e6 were added"),
 ("r4-c11-2", "C11", "on a solver error is_edge_feasible lets mirror_points over the parent's cached witnesses decide", "cached witnesses from an earlier elimination, a parent that is not node 0, an Error fault, a child region without interior", ["C11"], ""),
 ("r4-c12-1", "C12", "a hand-written Clone for Tree compacts the arena", "a clone of an arena with a hole in front of a live node", ["C12", "C04"], "C12 crashed (exit 101) instead of reporting: the explorer itself works on clones, and the reference model indexed a dangling link. clone() is now an operation with its own oracle (same arena, same future indices), checked for every state before anything else"),
 ("r4-c12-2", "C12", "child_mut borrows the two nodes in ascending index order and returns them as (node, child)", "a child stored in a re-used slot below its parent's index", ["C12"], "missed at first: only the mutating operations were driven; every new state now has its read and write accessors (child, child_mut, parent, parent_mut, children, tree_node2_mut, terminals_mut, ...) compared with the arena, with one distinct value per node and writes through the returned references"),
 ("r4-c13-1", "C13", "add_child_node checks ChildExists after the slab insertion and leaves an orphan", "a rejected add on an occupied slot", ["C12"], "not reported by C13: the state after the rejected call violates the C12 invariant (C12 reports it as 'Err but changed the tree') and C13 only traverses arenas that satisfy it"),
 ("r4-c13-2", "C13", "remove_all_descendants clears the child slots through retain_children, which never sets isleaf", "a direct remove_all_descendants on a node with children", ["C13", "C12"], ""),
 ("r4-c14-1", "C14", "distance() uses signum(x) * inf for zero-normal rows", "a zero row with bias -0.0", ["C14"], "missed at first: zero rows had biases -2..2 but never -0.0; such systems were added"),
 ("r4-c14-2", "C14", "contains() is rewritten as !any(x < -1e-8)", "a point with a NaN coordinate, or an infinite one meeting a zero coefficient", ["C14"], "missed at first: all points were finite; points with NaN / +-inf coordinates were added, judged only where some row is violated or undefined whatever the ambiguous terms are taken to be"),
 ("r4-c15-1", "C15", "remove_duplicate_rows compares directions by the inner product of the unit vectors", "two rows with equal normalised bias whose directions are between 2e-16 and 2e-8 rad apart", ["C15"], "missed at first: directions in the grid differ by O(1) or not at all; rows x <= 1 against x + 2^-27 y <= 1 were added"),
 ("r4-c15-2", "C15", "normalize's 'negligible' guard compares the squared norm with epsilon", "rows with norm between 2.2e-16 and 1.5e-8 whose raw entries differ by at most 2.2e-16", ["C15"], "missed at first: the tiny rows of the grid were far below the threshold (2^-60); rows with entries 2^-51 and 2^-52 were added"),
 ("r4-c16-1", "C16", "from_row_iter copies contiguous source rows with copy_from_slice(as_slice_memory_order())", "rows with a negative stride (mirrored views, owned arrays after invert_axis)", ["C16"], "missed at first: storage was row- or column-major; a third storage (mirrored buffer with inverted axes, equal as an array) was added for every operand"),
 ("r4-c16-2", "C16", "remove_zero_columns tests the squared column norm", "a column whose non-zero entries are below 1.5e-162", ["C16"], "missed at first: entries were of ordinary size; matrices with entries +-2^-600 and 2^600 were added (structural checks only)"),
 ("r4-c17-1", "C17", "find_terminal gives up after usize::BITS nodes", "a chain-shaped tree with more than 64 levels (inf_norm dim >= 32, class_characterization dim >= 65, from_poly with >= 64 rows)", ["C17"], "missed at first: dimensions were <= 5. Chains of 66-72 levels were added; their faces cannot be enumerated, so every root-to-terminal path is visited instead (interior point by exact LP, real evaluator and definition compared there)"),
 ("r4-c17-2", "C17", "from_poly removes 'duplicate' rows first", "two rows one unit in the last place apart, the looser one first", ["C17"], "missed at first: rows differed by O(1); rows x <= 1 + 2^-52 next to x <= 1 were added"),
 ("r4-c18-1", "C18", "read_layers rebuilds the weight matrix from its raw buffer", "a weights entry stored column-major (fortran_order: True), at least 2x2 and not symmetric", ["C18"], "missed at first: every entry was written row-major; every 3rd file is now written once more with column-major weight entries"),
 ("r4-c18-2", "C18", "read_layers looks linear entries up under a three-digit index", "a file whose entry indices have another width", ["C18"], "missed at first: all files used three digits; widths 1, 2 and 4 were added"),
 ("r4-c19-1", "C19", "write_inequality multiplies by the reciprocal of the scale", "a scale such as 49 or 1e9 where x * (1/s) and x / s differ in the last place and the difference crosses a rounding tie of the printed digits", ["C19"], ""),
 ("r4-c19-2", "C19", "write_float builds sign and digits into one string and emits it with Formatter::pad", "any explicit precision", ["C19"], ""),
]

T5 = [
 ("r5-c01-1", "C01", "the builder caches activation schemas under (kind, dim, row), ignoring the leaky slope", "two leaky ReLUs with different slopes on the same row and width in one network", ["C01"], "missed at first: the families with equal consecutive widths used one leaky slope at most; families with three slopes were added"),
 ("r5-c01-2", "C01", "from_poly skips rows without coefficients", "a precondition with a row 0 <= b, b < 0, that is not the first row", ["C01", "C17"], "missed by C01 at first (C17 caught it): the empty preconditions of the alphabet were built from non-zero rows; zero rows behind an ordinary row were added"),
 ("r5-c02-1", "C02", "the grafted predicate has coefficients below eps * max|coefficient| zeroed", "a terminal of f with entries of very different magnitude (1 and 2^-60)", ["C02"], "strengthening prepared from the agent's summary before the first run (terminal diag(1, 2^-60)); trees holding such numbers are compared exactly but not bound to the f64 evaluator"),
 ("r5-c02-2", "C02", "apply_func returns early for maps within 2.2e-16 of the identity", "a scaling by 1 + 2^-52", ["C02"], "strengthening prepared from the summary: scalings by 1 + 2^-52 and 1 - 2^-53 in the apply_func alphabet (shifts by 2^-60 were tried and withdrawn: f64 addition rounds them away in any implementation)"),
 ("r5-c03-1", "C03", "the LP phase of infeasible_elimination searches inside the box |x| <= 1e9", "a region beyond 1e9 that reaches the LP", ["C03", "C11"], "strengthening prepared from the summary: the far programs (thresholds 5 and 7 times 1e6 and 1e9) run in C03 and C11"),
 ("r5-c03-2", "C03", "forward_if_redundant counts every non-feasible sibling as infeasible", "an undecided sibling (solver error)", ["C03", "C11"], ""),
 ("r5-c04-1", "C04", "nodes copied from the right operand keep its cached state", "an eliminated right operand grafted into a tree with another input dimension, then a cache-consulting operation", ["C04", "C05"], ""),
 ("r5-c04-2", "C04", "compose::<false, true> passes the pruning schema (as r3-c02-2)", "the progress-display variant", ["C04", "C02"], ""),
 ("r5-c05-1", "C05", "phase_inh tests the parent's witnesses against the normalised half-space", "a row of norm above 1 that a cached point misses by more than 1e-8 but less than 1e-8 times the norm", ["C05"], "strengthening prepared from the summary: seeded roots whose stored point misses a row of norm 1024 by 2^-20"),
 ("r5-c05-2", "C05", "forward_if_redundant splits the children with one partition(is_feasible)", "an Indeterminate sibling", ["C11"], "not reported by C05: in the enumerated runs the wrongly forwarded subtrees carry no cached mark that becomes unsound; C11 reports the changed function under an Error fault"),
 ("r5-c06-1", "C06", "as_linprog skips rows 'without any variable'", "a tree over R^0 (every axis sliced away)", ["C06"], "strengthening prepared from the summary: all total trees over R^0 with <= 7 nodes"),
 ("r5-c06-2", "C06", "phase_one accepts a child of a witness-less Feasible parent without an LP", "a parent in state Feasible", ["C06"], "strengthening prepared from the summary: roots marked Feasible without witness (a state a user may set; the library sets it after an 'unbounded' answer)"),
 ("r5-c07-1", "C07", "is_edge_feasible tightens every label-0 half-space by 1e-6 in raw units", "a decision row of norm 2^-13: the region 0 < x <= 1/256 then counts as empty", ["C07"], "missed at first although the very operands were in the alphabet: the oracle's own margin for 'thinner than the LP tolerance' was 1e-6 in the same raw units. The margin of the pruning checks (C03, C06, C07, C11) is now 1e-7; the unchanged library holds with it in both tiers"),
 ("r5-c07-2", "C07", "is_edge_feasible re-checks the LP witness with contains()", "thresholds of 1e7 and more with non-dyadic coefficients", ["C07"], "strengthening prepared from the summary: one-split operands with thresholds 1e7..1e10 and coefficients such as 9.7"),
 ("r5-c08-1", "C08", "PartialEq of affine functions short-cuts on equal data pointers", "functions with input dimension 0 (all zero-element matrices share one dangling pointer)", ["C08"], "strengthening prepared from the summary: trees over R^0"),
 ("r5-c08-2", "C08", "reduce compares siblings with total_cmp", "sibling terminals that are equal but differ in the sign of a zero", ["C08"], "strengthening prepared from the summary: terminals with -0.0 entries"),
 ("r5-c09-1", "C09", "PolyhedraGen::next truncates the predicate stack to depth - 1", "PolyhedraGen::with_root at a non-root node, a node after a return", ["C09"], "strengthening prepared from the summary: with_root from every node"),
 ("r5-c09-2", "C09", "PolyhedraGen::next skips the subtree of nodes cached as Infeasible", "a kept infeasible only-child with descendants (after infeasible_elimination on a partial tree)", ["C09"], "strengthening prepared from the summary: every 4th tree goes through infeasible_elimination first"),
 ("r5-c10-1", "C10", "as_linprog reads the objective through into_raw_vec", "an owned objective array that is not in standard layout (stride -1, strided)", ["C10"], "strengthening prepared from the summary: non-standard objective arrays in the column-major re-run"),
 ("r5-c10-2", "C10", "solve_linprog tests the finiteness of the solution through its squared length", "a vertex coordinate above 1.3e154", ["C10"], "strengthening prepared from the summary: bounded sets with vertices at 1e200, and 'Unbounded' for a bounded set as a verdict error of the far family"),
 ("r5-c11-1", "C11", "phase_two accepts witnesses within 1e-8 * max(1, |b|)", "a Perturbed fault at a node with a large right-hand side", ["C11", "C05"], ""),
 ("r5-c11-2", "C11", "phase_inh walks up to the closest ancestor with witnesses when the parent is Feasible (as r4-c05-2)", "an Unbounded fault at an inner node", ["C11", "C05"], ""),
 ("r5-c12-1", "C12", "add_child_node reads the slot with children.get(label)", "a label outside 0..K: the node is inserted before the write panics", ["C12"], "strengthening prepared from the summary: out-of-range labels for add / remove / merge on every state (may fail or panic, must not change the tree)"),
 ("r5-c12-2", "C12", "add_root frees the old root's slot first", "add_root on a tree whose root has children", ["C12"], "strengthening prepared from the summary: add_root on every state (fresh index, former tree untouched)"),
 ("r5-c13-1", "C13", "DfsPre::new starts with last_push = 1 (as r3-c09-2, node traversal only)", "skip_subtree before the first next()", ["C13", "C09"], ""),
 ("r5-c13-2", "C13", "num_nodes(root) returns len()", "a tree re-rooted with add_root (the former tree stays in the arena, unreachable)", ["C13"], "missed at first: re-rooted trees were outside the enumerated shapes (on them the unchanged library's own size_hint lower bound, len(), exceeds the number of reachable nodes, so the size_hint and whole-arena clauses cannot be meant for them). A re-rooted stage now applies the clauses that only speak about a node's subtree - the three traversals from every start node, num_nodes(i), path_to_node(i) - to every explored state after add_root"),
 ("r5-c14-1", "C14", "contains uses max(1e-8, A::epsilon()) as tolerance", "the f32 instantiation of the generic polytope type", ["C14"], "strengthening prepared from the summary: a single-precision stage for contains / hypercube on axis-parallel rows (where f32 arithmetic is exact)"),
 ("r5-c14-2", "C14", "hypercube uses radius.abs()", "a negative radius (the empty set)", ["C14"], "strengthening prepared from the summary: negative radii"),
 ("r5-c15-1", "C15", "remove_duplicate_rows classifies rows with the f64 epsilon whatever the element type", "the f32 instantiation and rows with norm in (2.2e-16, 1.19e-7]", ["C15"], "strengthening prepared from the summary: a single-precision stage for the clean-up functions"),
 ("r5-c15-2", "C15", "remove_rows returns a copy when the index iterator's size_hint lower bound is 0", "a lazily filtered index iterator", ["C15", "C16"], "strengthening prepared from the summary: every second index set is passed as (0..m).filter(..) instead of a Vec"),
 ("r5-c16-1", "C16", "remove_rows sizes its result from size_hint().0", "a lazily filtered index iterator", ["C16"], "see r5-c15-2"),
 ("r5-c16-2", "C16", "stack returns the other operand when mat.is_empty()", "functions with input dimension 0", ["C16"], "strengthening prepared from the summary: functions R^0 -> R^r and R^n -> R^0 as operands"),
 ("r5-c17-1", "C17", "remove_axes resets cached states only where a dropped column was non-zero", "slice, eliminate, remove_axes, compose, eliminate", ["C17", "C05", "C04"], "missed by C17 at first (C05 and C04 caught it): the slicing cases now compose and prune one more layer on a copy of the sliced tree"),
 ("r5-c17-2", "C17", "from_poly returns a single terminal when the else-branch is relative_eq to the then-branch", "an else-branch within one unit in the last place of the then-branch", ["C17"], "strengthening prepared from the summary: nearly equal else-branches"),
 ("r5-c18-1", "C18", "extract_range records the shape before each operator", "a range taken from an extracted architecture", ["C18"], "strengthening prepared from the summary: recorded shapes of the parts against the whole, nested extraction against direct extraction"),
 ("r5-c18-2", "C18", "the builder reserves the unbounded node estimate", "a first linear layer with 64 or more neurons", ["C18", "C01"], "strengthening prepared from the summary: architectures / networks with 64-72 neurons in a layer"),
 ("r5-c19-1", "C19", "write_lincomb takes coefficients in memory order", "a matrix with a negative column stride", ["C19"], "strengthening prepared from the summary: matrices stored column-major or mirrored with inverted axes, chosen by their entries"),
 ("r5-c19-2", "C19", "the ellipsis is written when the row number equals the window's start bound", "a skip_rows window that starts below zero", ["C19"], "strengthening prepared from the summary: windows starting at -1 and -2"),
]

T6 = [
 ("r6-c01-1", "C01", "from_poly de-duplicates the precondition rows (as r4-c17-2)", "two parallel rows one unit in the last place apart, the looser one first", ["C01", "C17"], "strengthening prepared from the agent's summary before the first run: such a precondition in C01 (C17 had the rows already)"),
 ("r6-c01-2", "C01", "is_edge_feasible tightens the last label-0 row by 1e-7", "a class head below a non-root node and a region narrower than 1e-7 in the head predicate", [], "not reported: the margin equals the 1e-7 the pruning checks themselves allow for 'thinner than the LP tolerance' (see r5-c07-1); a slab narrower than that is 'either answer' by construction of the oracle"),
 ("r6-c02-1", "C02", "the composition loop is bounded by the size_hint lower bound of the terminal iterator", "generic_composition_inplace called directly with a lazily filtered terminal iterator", ["C02"], "strengthening prepared from the summary: the generic entry point with a filtered iterator as a third twin of compose (pairs of trees with <= 3 nodes)"),
 ("r6-c02-2", "C02", "the root of the right operand is assumed to be arena node 0", "a right operand built from a raw Tree whose root was replaced with add_root", ["C02", "C07"], "missed at first: every operand had its root at arena node 0. C02 now also composes operands built over a raw arena whose root was replaced with add_root (right operand alone, and both operands), with a former tree left behind at node 0; C07 has a second pass with both operands re-rooted"),
 ("r6-c03-1", "C03", "the pruning schema zeroes entries of the composed predicate below 1e-10", "two small factors, e.g. a predicate 2^-20 y <= b grafted onto 2^-20 x", ["C03"], "missed at first: factors were of size 1 or far larger; a small-factor family was added to C03"),
 ("r6-c03-2", "C03", "the in-place tree operators apply a right operand with exactly one terminal to every terminal of the left one", "a partial right operand with decisions but one terminal (from_poly without else-branch)", ["C07"], "not reported by C03, whose alphabet has no tree arithmetic as last step over such operands; C07 reports it"),
 ("r6-c04-1", "C04", "infeasible_elimination removes the descendants of a node cached as Infeasible", "a kept infeasible only-child below which an un-pruned composition grafted a subtree, then a second elimination", ["C04"], ""),
 ("r6-c04-2", "C04", "reduce skips the first element of the reversed node list instead of the root", "a tree whose root ends up with two identical terminal children", ["C04", "C08"], ""),
 ("r6-c05-1", "C05", "after a forwarding the traversal pops one predicate too many", "a forwarded node that is a decision with its own subtree, five levels", ["C05"], ""),
 ("r6-c05-2", "C05", "a kept infeasible last child also marks its parent infeasible", "a partial decision whose only child is infeasible while its own region is not", ["C05"], ""),
 ("r6-c06-1", "C06", "the traversal skips the subtree of a forwarded decision", "label 0 infeasible, the surviving label-1 sibling a decision with something infeasible below", ["C06"], ""),
 ("r6-c06-2", "C06", "forward_if_redundant only forwards terminals", "a redundant decision above a non-redundant decision", ["C06"], ""),
 ("r6-c07-1", "C07", "is_edge_feasible short-cuts when the parent's predicate 'already occurs' on the path, compared with relative_eq", "operands that split at x <= 1 and x <= 1 + 2^-52, the input 1 + 2^-52", ["C07"], "strengthening prepared from the summary: such a pair of one-split operands"),
 ("r6-c07-2", "C07", "a fast path for operands over 'the same decision structure' ignores the order of the children", "two complete operands with equal predicates at equal indices whose children were attached in different label order", ["C07"], "strengthening prepared from the summary: operand layouts depth-first against interleaved (same indices, children in the other order)"),
 ("r6-c08-1", "C08", "reduce skips decisions whose cached state is Infeasible", "a kept infeasible only-child with two identical terminal children (after infeasible_elimination)", ["C08"], "missed at first: C08's predicates had no robustly infeasible combination (a label-0 edge under the same predicate is a closed half-space, the path is thin, not empty); a one-input family with a gap between parallel predicates was added, every partial tree also goes through infeasible_elimination first"),
 ("r6-c08-2", "C08", "reduce reads mat[[0, 0]] of both siblings before comparing them", "terminals over R^0", ["C08"], ""),
 ("r6-c09-1", "C09", "try_remove_child clears the slot before it looks whether the parent has children left", "a decision that loses all its children one at a time and is then used as a terminal", ["C12"], "not reported by C09, which traverses built trees only; C12 reports the stale leaf flag"),
 ("r6-c09-2", "C09", "evaluate_decision tests is_sign_positive(bias - a.x)", "a decision with bias -0.0 and an input on the hyperplane", ["C09"], "strengthening prepared from the summary: one predicate per dimension has bias -0.0"),
 ("r6-c10-1", "C10", "solve_linprog short-cuts on mat.is_empty()", "a polytope with rows but no columns and a negative bias", ["C10"], "missed at first: no polytope over R^0; a small family was added"),
 ("r6-c10-2", "C10", "as_linprog skips rows with bias >= 1e20 ('infinite bound')", "a non-redundant row with such a bias", ["C10"], "strengthening prepared from the summary: systems with right-hand sides of 1e20 (coefficients of 1e21 were tried and withdrawn, see c10.rs)"),
 ("r6-c11-1", "C11", "after a solver error phase_two solves again and trusts the second answer", "Error at call i and a displaced witness at call i+1", ["C11"], ""),
 ("r6-c11-2", "C11", "the error message of phase_two computes the largest violation with partial_cmp().unwrap()", "a NaN solver point, at least two path rows and a logger enabled at Error level", ["C11"], "strengthening prepared from the summary: the engine installs a discarding logger enabled up to Info, so that the arguments of error! / warn! / info! are evaluated as in a logging application"),
 ("r6-c12-1", "C12", "a hand-written clone_from forgets the root", "clone_from into a tree with another (or no) root", ["C12"], "strengthening prepared from the summary: clone_from into an empty and into a one-node tree on every state"),
 ("r6-c12-2", "C12", "try_remove_child derives the leaf flag from the two cyclically neighbouring slots", "K >= 4 and a remaining child on a non-neighbouring label", ["C12"], "strengthening prepared from the summary: K = 4 at a smaller depth (the property names K in {2,3}; labels that are not cyclic neighbours only exist from 4 on)"),
 ("r6-c13-1", "C13", "depth() is memoised in a Cell that merge_child_with_parent does not reset", "depth() called before a direct merge_child_with_parent and again after it", ["C13"], "the change made Tree !Sync and the engine no longer built (exit 3, no verdict). The explorers now reach their subjects through an AssertSync wrapper and query depth / len / num_terminals before every action, so a stale cached answer shows in the metrics of the next state"),
 ("r6-c13-2", "C13", "PolyhedraGen::with_root seeds its traversal at the tree's root", "with_root at a non-root node", ["C09"], "reported by C09 (with_root from every node, added in round 5); C13 drives PolyhedraIter from the root only"),
 ("r6-c14-1", "C14", "distance_raw subtracts the products from the bias one by one", "huge coordinates that cancel in a row, e.g. (2^53, -2^53) with x0 + x1 <= -1", ["C14"], "strengthening prepared from the summary: points (+-2^53, +-2^53), for which the unchanged arithmetic is exact"),
 ("r6-c14-2", "C14", "intersection returns self when both operands start at the same address", "a row view intersected with the view of the whole polytope", ["C14"], "strengthening prepared from the summary: views sharing one buffer as operands"),
 ("r6-c15-1", "C15", "remove_redundant_row_constraints keeps the row in the LP with its bias relaxed by + 1.0", "a necessary row with |bias| >= 2^53", ["C15"], "strengthening prepared from the summary: biases 2^53, 1e16, 2^60"),
 ("r6-c15-2", "C15", "a row is kept without an LP when no other row is left", "a system of tautologies only", ["C15"], "strengthening prepared from the summary: all-tautology systems, and clause (3) now also rejects a remaining tautology 0 <= b with b >= margin"),
 ("r6-c16-1", "C16", "remove_zero_rows tests |x| > MIN_POSITIVE", "a row whose non-zero entries are +-f64::MIN_POSITIVE", ["C16"], "strengthening prepared from the summary: +-MIN_POSITIVE among the extreme entries"),
 ("r6-c16-2", "C16", "remove_zero_columns returns a zero bias when no column survives", "a constant function with non-zero bias", ["C16"], ""),
 ("r6-c17-1", "C17", "from_poly splits the raw coefficient buffer into rows", "a column-major polytope matrix of at least 2x2", ["C17"], ""),
 ("r6-c17-2", "C17", "evaluate_decision takes a fast path over memory-order slices (as r4-c01-1)", "an input with stride -1", ["C17"], ""),
 ("r6-c18-1", "C18", "the precondition branch of the builder reads the width from the node with the highest arena index", "a precondition tree that went through deletion and slot re-use", ["C18"], "strengthening prepared from the summary: every split is also distilled through the precondition entry point (second part on top of the first part's tree)"),
 ("r6-c18-2", "C18", "the node estimator computes 1usize << first_dim", "a first linear layer of 64 or more neurons", ["C18"], ""),
 ("r6-c19-1", "C19", "write_inequality takes 'all coefficients zero' from max|coefficient| == 0 (NaN is ignored by max)", "a row whose non-zero entries are NaN, set through the public field", [], "not reported: non-finite matrix entries are outside every alphabet (from_mats asserts against them in debug builds; section 8)"),
 ("r6-c19-2", "C19", "write_lincomb partially sorts in front of an open-ended skip window and treats Excluded(k) like Included(k)", "sorting active and skip_axes = (Excluded(k), Unbounded)", ["C19"], "strengthening prepared from the summary: axis windows with an exclusive start"),
]

extra = {}
ep = os.path.join(ROOT, "tools", "seed_table_extra.json")
if os.path.exists(ep):
    extra = json.load(open(ep))

rows = []
for sid, prop, descr, needs, caught, note in T + T2 + T3 + T4 + T5 + T6:
    if sid in extra:
        e = extra[sid]
        descr, needs, caught, note = e["descr"], e["needs"], e["caught"], e.get("note", "")
    rnd = int(sid[1]) if sid.startswith("r") else 1
    r2 = rnd >= 2
    base = sid[3:] if r2 else sid
    nn, k = base[1:3], base[4]
    src = "/tmp/seed%s_c%s" % ("" if rnd == 1 else str(rnd), nn)
    dst = os.path.join(ROOT, "seeded", sid)
    if not descr:
        continue
    have_src = os.path.exists(os.path.join(src, "patch%s.diff" % k))
    if have_src:
        os.makedirs(dst, exist_ok=True)
        shutil.copy(os.path.join(src, "patch%s.diff" % k), os.path.join(dst, "patch.diff"))
        shutil.copy(os.path.join(src, "demo%s.rs" % k), os.path.join(dst, "demo.rs"))
    elif not os.path.exists(os.path.join(dst, "patch.diff")):
        continue
    conf = {}
    lp = os.path.join(src, "confirm%s.log" % k)
    if os.path.exists(lp):
        log = open(lp).read()
        m = re.search(r"demo_with_patch_exit=(\d+) demo_without_patch_exit=(\d+)", log)
        conf = {
            "suite_with_patch": "%d 'test result: ok' lines, %d FAILED" % (len(re.findall(r"^test result: ok", log, re.M)), len(re.findall(r"test result: FAILED", log))),
            "demo_with_patch_exit": int(m.group(1)) if m else None,
            "demo_without_patch_exit": int(m.group(2)) if m else None,
        }
    elif os.path.exists(os.path.join(dst, "meta.json")):
        conf = json.load(open(os.path.join(dst, "meta.json"))).get("confirmation", {})
    meta = {
        "seed": sid,
        "property": prop,
        "change": descr,
        "needs_to_manifest": needs,
        "origin": ("round %d: " % rnd) + "fresh sub-agent given only the property text" + (" (plus one-line descriptions of the earlier rounds' changes to avoid duplicates)" if r2 else "") + " and a scratch worktree; nothing from /verif",
        "confirmation": conf,
        "what_was_run": [
            "tools/confirm_seed.sh %s %s" % (nn, k) + ((" %d" % rnd) if r2 else "") + "  (scratch worktree: git apply patch; cargo test --offline --no-fail-fast -> whole suite passes; demo as tests/seed_demo.rs fails with the patch, passes after git checkout)",
            "tools/try_seed.sh seeded/%s/patch.diff quick %s  (git -C /repo apply; ./check <ID> quick; git -C /repo checkout -- .)" % (sid, " ".join(caught)),
        ],
        "caught_by_quick": caught,
        "note": note,
    }
    json.dump(meta, open(os.path.join(dst, "meta.json"), "w"), indent=1)
    rows.append(meta)

with open(os.path.join(ROOT, "mutation_log.md"), "w") as f:
    f.write("# Detection log\n\nIndependently produced changes (one fresh sub-agent per property, given only the property text and a scratch\nworktree), each confirmed in a scratch worktree (whole pinned suite passes with the change, the agent's demonstration\nfails with it and passes without) and then run against the checks with `tools/try_seed.sh`.\n`caught by` lists the quick-tier checks that print a VIOLATION line for the change.\n\n")
    f.write("| seed | property | change | needs | caught by (quick) | note |\n|---|---|---|---|---|---|\n")
    for m in rows:
        f.write("| %s | %s | %s | %s | %s | %s |\n" % (m["seed"], m["property"], m["change"], m["needs_to_manifest"], ", ".join(m["caught_by_quick"]) or "-", m["note"] or ""))
    f.write("\nOwn deliberate changes used while building (each reverted immediately): sign of `A c` in `FunctionComposition::update_decision` (C02: caught), label factors swapped in `PolyhedraGen::next` (C03: caught), `Error => Infeasible` and skipped containment check in `phase_two` (C11: caught), variable index replaced by position in `write_lincomb` and swapped edge labels in `Dot` (C19: caught), `reduce` skipping the root by `value.index == 0` instead of `get_root_idx()` (C08: caught on the re-rooted arenas only - RootNode panic on about 1100 cases; the pinned suite only builds trees rooted at node 0), the pre-fix trees of findings F01-F20 (each reported by the check named in DESIGN.md section 6).\n")
print("%d seeds assembled" % len(rows))
