#!/usr/bin/env python3
"""Copies the independently produced, confirmed changes from /tmp/seed_cNN into /verif/seeded/<id>/
(patch.diff, demo.rs, meta.json) and writes /verif/mutation_log.md."""
import json, os, re, shutil

ROOT = "/verif"
# (seed, property, short description, what it needs, caught by (quick tier), note on strengthening)
T = [
 ("c01-1", "C01", "is_edge_feasible accepts an Optimal answer only if contains(solution)", "an argmax/class head grafted below a non-root node and an LP vertex that misses the 1e-8 tolerance (weights >= 1e4), or a perturbed solver point", ["C11"], "C01/C03 do not catch it: the trigger is a numerical inaccuracy of minilp on badly scaled rows, outside the dyadic alphabets; the fault plan of C11 (Perturbed witness at the LP call of the head) reaches the same branch"),
 ("c01-2", "C01", "apply_func_at_node shortcut for identity terminals ignores the bias", "a first linear layer with identity weights and non-zero bias followed by another linear layer", ["C01"], ""),
 ("c02-1", "C02", "enumeration position used as edge label when grafting", "a partial right operand with a gap below an existing child (only child on label 1; K=4 children {0,3})", ["C02"], ""),
 ("c02-2", "C02", "operands of update_terminal swapped for a leaf-rooted right operand", "right operand that is a single terminal with a non-commuting map (also apply_func equivalence)", ["C02"], ""),
 ("c03-1", "C03", "keep-last-child rule tests label+1 == K instead of the position", "pruning variant + partial operand whose only child hangs on label 0 + infeasible under a non-root terminal", ["C03", "C04", "C07"], "missed at first: all partial operands of the C03 alphabet had their only child on label 1; label-0-only user trees were added (C03/C04/C05/C11 share the alphabet)"),
 ("c03-2", "C03", "nodes with a cached Infeasible state are removed on the spot", "partial tree whose decision keeps an infeasible only child + a second elimination run", ["C03", "C04", "C01"], ""),
 ("c04-1", "C04", "keep-last-child rule rewritten as skipped_children + 1 == K", "pruned composition with a from_poly(.., None) operand grafted on a non-root terminal where the operand's path is infeasible", ["C04", "C03"], ""),
 ("c04-2", "C04", "root shortcut of is_edge_feasible tests the child instead of the parent", "pruned composition / tree operator onto a root terminal that is a non-zero constant", ["C04", "C03"], ""),
 ("c05-1", "C05", "phase_two caches the rejected LP point instead of the repaired one", "the witness-repair branch (solver point outside the polytope)", ["C05", "C11"], "missed by C05 at first (minilp never returns a rejected point on the dyadic alphabets): C05 now drives the repair branch with every single witness fault at every LP call"),
 ("c05-2", "C05", "mirror_points accepts normalised distances >= -1e-8", "start point / parent witness less than 1e-8 outside a row with norm > 1", ["C05", "C11"], ""),
 ("c06-1", "C06", "depth-1 nodes skip the LP and get a closed-form witness", "root predicate with an all-zero normal and non-zero bias (NaN witness, empty child cached as feasible)", ["C06", "C01", "C04"], "at first the engine itself panicked on the NaN witness (exit 101, no verdict): the snapshot reader now records non-finite stored values and every well-formedness / cache check reports them"),
 ("c06-2", "C06", "grafted nodes copy the right operand's cached feasibility state", "a right operand that was itself eliminated before the composition", ["C06", "C05", "C04"], "missed at first: right operands were always fresh; operands 'after their own infeasible_elimination' were added to the shared alphabet"),
 ("c07-1", "C07", "keep-last-child rule tests label+1 == K", "tree arithmetic with a partial right operand whose only child hangs on label 0", ["C07"], ""),
 ("c07-2", "C07", "&a op b forwards to b op a", "borrowed-left / owned-right variant with - or /", ["C07"], ""),
 ("c08-1", "C08", "reduce skips a decision only if both children are decisions", "a terminal whose affine function equals the predicate of its sibling decision", ["C08"], "missed at first: no terminal map of the alphabet equalled a predicate; a second enumeration with predicate-equal terminals was added"),
 ("c08-2", "C08", "reduce walks the arena in reverse index order instead of reversed BFS order", "re-used arena index so that a child has a smaller index than its parent + cascading merge", ["C08"], ""),
 ("c09-1", "C09", "DfsPre counts empty child slots as remaining siblings", "partial tree with a missing branch above an existing child", ["C09", "C13"], ""),
 ("c09-2", "C09", "evaluate_decision uses <= 1e-8 instead of <= 0", "inputs 0 < a.x-b <= 1e-8 beyond a hyperplane", ["C09", "C02", "C17", "C08"], "missed at first: one witness per face never lies that close to a hyperplane; conformance now also probes 2^-30 and 2^-45 to either side of every hyperplane a face lies on"),
 ("c10-1", "C10", "as_linprog skips a row equal to the preceding row without comparing the bias", "two adjacent rows with identical coefficients, the later one tighter", ["C10", "C15"], ""),
 ("c10-2", "C10", "early Infeasible for zero rows with bias <= 0 (should be < 0)", "a row 0 <= 0", ["C10", "C15"], "missed by C10 at first: the fat/thin classifier counted the tautology 0 <= 0 as 'no margin' and accepted either answer; zero rows are now ignored (b >= 0) or decide emptiness (b < 0)"),
 ("c11-1", "C11", "is_edge_feasible treats Unbounded as infeasible", "Unbounded fault at an LP call for a feasible edge of a pruned composition", ["C11"], ""),
 ("c11-2", "C11", "failed witness repair yields Infeasible instead of Indeterminate", "FarOff witness in a direction the 20 repair iterations cannot recover from, at a node without inherited witness", ["C11"], "the negative far-off kind FarOff(-1e2) was added to the fault alphabet afterwards; the quick tier already caught the change through fault pairs"),
 ("c12-1", "C12", "merge_child_with_parent removes the node before reading its child", "merge with a label that has no child on a non-root node with one child", ["C12"], ""),
 ("c12-2", "C12", "fast path for removing a leaf child skips the parent's isleaf update", "removing a terminal that is the last child of its parent", ["C12", "C13"], ""),
 ("c13-1", "C13", "DfsPre enumerates before filtering empty slots", "node with an existing child below an empty slot", ["C13", "C09"], ""),
 ("c13-2", "C13", "try_remove_child computes isleaf before clearing the slot", "a decision that loses all children through remove_child", ["C12", "C13"], "C13 missed it at first because its shape space skipped states that violate the C12 invariant; states whose only flaw is a stale leaf flag are now kept"),
 ("c14-1", "C14", "place_axis_bounds writes the infinite-upper placeholder into the lower row", "finite lower bound != -1 with infinite upper bound", ["C14"], "missed at first: the only such pair of the grid was (-1, +inf), exactly the value the slip produces; more bound pairs were added"),
 ("c14-2", "C14", "distance returns +inf for every zero-normal row", "zero row with negative bias (empty polytope)", ["C14"], ""),
 ("c15-1", "C15", "remove_tautologies treats |coefficient| <= epsilon as zero", "row whose coefficients are all tiny but not zero", ["C15"], "missed at first: no tiny coefficients in the grid; a grid with 2^-60 was added (it also exposed finding F20)"),
 ("c15-2", "C15", "remove_redundant_row_constraints drops zero rows without looking at the bias", "zero row with negative bias as last row", ["C15"], ""),
 ("c16-1", "C16", "AffFunc::subtraction assigns -1 to the right index (re-introduces F15)", "left == right", ["C16"], ""),
 ("c16-2", "C16", "remove_zero_rows tests the sum of a row instead of any non-zero entry", "a row whose coefficients cancel exactly and whose bias is zero", ["C16", "C15"], ""),
 ("c17-1", "C17", "second decision of partial_hard_shrink rewritten as x <= -lambda with swapped children", "input exactly at x = -lambda, lambda > 0", ["C17"], ""),
 ("c17-2", "C17", "remove_axes iterates arena slots 0..len() instead of the tree", "from_slice, un-pruned compose, infeasible_elimination (arena with holes), then remove_axes", ["C17", "C04"], "missed by C17 at first (C04 caught it): the slice cases now also run an elimination between compose and remove_axes"),
 ("c18-1", "C18", "Architecture::argmax checks the width of the network input instead of the current width", "input width and current width on different sides of 2", ["C18"], ""),
 ("c18-2", "C18", "read_layers no longer sorts the entry names", "an npz archive whose entries are not stored in index order", ["C18"], ""),
 ("c19-1", "C19", "tautology glyph chosen by the sign bit of the bias", "all-zero row with bias -0.0 and simplify_tautologies", ["C19"], ""),
 ("c19-2", "C19", "write_children prints the rank among existing children instead of the edge label", "a node with a vacant lower label and an occupied higher one", ["C19"], ""),
]

extra = {}
ep = os.path.join(ROOT, "tools", "seed_table_extra.json")
if os.path.exists(ep):
    extra = json.load(open(ep))

rows = []
for sid, prop, descr, needs, caught, note in T:
    if sid in extra:
        e = extra[sid]
        descr, needs, caught, note = e["descr"], e["needs"], e["caught"], e.get("note", "")
    nn, k = sid[1:3], sid[4]
    src = "/tmp/seed_c%s" % nn
    dst = os.path.join(ROOT, "seeded", sid)
    if not descr:
        continue
    have_src = os.path.exists(os.path.join(src, "patch%s.diff" % k))
    if have_src:
        os.makedirs(dst, exist_ok=True)
        shutil.copy(os.path.join(src, "patch%s.diff" % k), os.path.join(dst, "patch.diff"))
        shutil.copy(os.path.join(src, "demo%s.rs" % k), os.path.join(dst, "demo.rs"))
    elif not os.path.exists(os.path.join(dst, "patch.diff")):
        continue
    conf = {}
    lp = os.path.join(src, "confirm%s.log" % k)
    if os.path.exists(lp):
        log = open(lp).read()
        m = re.search(r"demo_with_patch_exit=(\d+) demo_without_patch_exit=(\d+)", log)
        conf = {
            "suite_with_patch": "%d 'test result: ok' lines, %d FAILED" % (len(re.findall(r"^test result: ok", log, re.M)), len(re.findall(r"test result: FAILED", log))),
            "demo_with_patch_exit": int(m.group(1)) if m else None,
            "demo_without_patch_exit": int(m.group(2)) if m else None,
        }
    elif os.path.exists(os.path.join(dst, "meta.json")):
        conf = json.load(open(os.path.join(dst, "meta.json"))).get("confirmation", {})
    meta = {
        "seed": sid,
        "property": prop,
        "change": descr,
        "needs_to_manifest": needs,
        "origin": "fresh sub-agent given only the property text and a scratch worktree (/tmp/wt_c%s); nothing from /verif" % nn,
        "confirmation": conf,
        "what_was_run": [
            "tools/confirm_seed.sh %s %s  (scratch worktree: git apply patch; cargo test --offline --no-fail-fast -> whole suite passes; demo as tests/seed_demo.rs fails with the patch, passes after git checkout)" % (nn, k),
            "tools/try_seed.sh seeded/%s/patch.diff quick %s  (git -C /repo apply; ./check <ID> quick; git -C /repo checkout -- .)" % (sid, " ".join(caught)),
        ],
        "caught_by_quick": caught,
        "note": note,
    }
    json.dump(meta, open(os.path.join(dst, "meta.json"), "w"), indent=1)
    rows.append(meta)

with open(os.path.join(ROOT, "mutation_log.md"), "w") as f:
    f.write("# Detection log\n\nIndependently produced changes (one fresh sub-agent per property, given only the property text and a scratch\nworktree), each confirmed in a scratch worktree (whole pinned suite passes with the change, the agent's demonstration\nfails with it and passes without) and then run against the checks with `tools/try_seed.sh`.\n`caught by` lists the quick-tier checks that print a VIOLATION line for the change.\n\n")
    f.write("| seed | property | change | needs | caught by (quick) | note |\n|---|---|---|---|---|---|\n")
    for m in rows:
        f.write("| %s | %s | %s | %s | %s | %s |\n" % (m["seed"], m["property"], m["change"], m["needs_to_manifest"], ", ".join(m["caught_by_quick"]) or "-", m["note"] or ""))
    f.write("\nOwn deliberate changes used while building (each reverted immediately): sign of `A c` in `FunctionComposition::update_decision` (C02: caught), label factors swapped in `PolyhedraGen::next` (C03: caught), `Error => Infeasible` and skipped containment check in `phase_two` (C11: caught), variable index replaced by position in `write_lincomb` and swapped edge labels in `Dot` (C19: caught), the pre-fix trees of findings F01-F20 (each reported by the check named in DESIGN.md section 6).\n")
print("%d seeds assembled" % len(rows))
