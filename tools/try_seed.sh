#!/bin/bash
# usage: try_seed.sh <patch file> <tier> <ID> [<ID> ...]   applies the patch to /repo, runs the checks, reverts
P=$1; TIER=$2; shift 2
cd /repo && git apply "$P" || { echo "patch does not apply"; exit 2; }
cd /verif
for id in "$@"; do
  ./check $id $TIER > .work/seed_$id.log 2>&1; rc=$?
  echo "$id exit=$rc $(grep -c '^VIOLATION' .work/seed_$id.log) violation lines; $(grep -m1 -A1 '^VIOLATION' .work/seed_$id.log | tail -1 | cut -c1-160)"
done
cd /repo && git checkout -- . && git status --short | grep -v Cargo.lock
