#!/bin/bash
# Applies every seeded change to /repo in turn, runs the quick tier of the checks its meta.json lists under
# caught_by_quick, reverts, and reports whether each check printed a VIOLATION line. /repo must be clean.
cd /verif
[ -z "$(git -C /repo status --short | grep -v Cargo.lock)" ] || { echo "/repo is not clean"; exit 2; }
out=/verif/.work/seed_regression.txt; : > $out
# optional arguments: seed directory name patterns (default: all), e.g. 'r4-*' 'r5-*' 'r6-*'
set -f  # patterns are expanded below seeded/ only
PATS="${@:-*}"
for pat in $PATS; do set +f; for d in seeded/$pat/; do
  s=$(basename $d)
  ids=$(jq -r '.caught_by_quick | join(" ")' $d/meta.json)
  git -C /repo apply /verif/$d/patch.diff || { echo "$s patch does not apply" | tee -a $out; continue; }
  for id in $ids; do
    ./check $id quick > .work/reg_$id.log 2>&1; rc=$?
    n=$(grep -c '^VIOLATION' .work/reg_$id.log)
    echo "$s $id exit=$rc violations=$n" | tee -a $out
  done
  git -C /repo checkout -- .
done; done
echo "missed: $(grep -vc 'exit=1' $out)" | tee -a $out
