#!/bin/bash
# usage: confirm_seed.sh <property number e.g. 07> <patch number> [round]
# Confirms in the scratch worktree /tmp/wt_c<NN>: suite passes with the patch, demo fails with it, demo passes without.
NN=$1; K=$2; R=$3   # R: round ("" or "2")
WT=/tmp/wt${R}_c$NN; SD=/tmp/seed${R}_c$NN
LOG=$SD/confirm$K.log
cd $WT || exit 2
git checkout -q -- . ; git clean -fdq tests/
export CARGO_BUILD_JOBS=6
{
echo "== apply patch$K"; git apply $SD/patch$K.diff || { echo "RESULT patch does not apply"; exit 1; }
echo "== suite with patch"; cargo test --offline --no-fail-fast 2>&1 | grep -E "^test result|FAILED|failed|error(\[|:)" 
} > $LOG 2>&1
suite_ok=1; grep -qE "test result: FAILED|^error" $LOG && suite_ok=0; [ $(grep -c "^test result: ok" $LOG) -ge 5 ] || suite_ok=0
cp $SD/demo$K.rs tests/seed_demo$K.rs
if [ "$NN" = "11" ]; then export RUSTFLAGS="--cfg affinitree_verif" CARGO_TARGET_DIR=$WT/target/verif; fi
cargo test --offline --test seed_demo$K > $SD/demo${K}_with.log 2>&1; with=$?
git checkout -q -- . 
cargo test --offline --test seed_demo$K > $SD/demo${K}_without.log 2>&1; without=$?
git clean -fdq tests/
echo "RESULT seed=c$NN/$K suite_ok=$suite_ok demo_with_patch_exit=$with demo_without_patch_exit=$without" | tee -a $LOG
